"""c-revision (C19): REV.classify, REV.triple-positions, MASK.literal, REV.incremental, REV.one-term,
REV.fixed-everywhere, REV.relation, C.empty-minimum, CHECK.three-way, MODEL.extract, REV.entry.

Instantiation used for the three compilations: two concrete revision conditionals c1, c2 (indices 1, 2; their
antecedents / consequents are the uninterpreted atoms A(c_k), B(c_k)) and either the generic family of worlds
(reference and fast compilation) or two concrete worlds w1, w2 (incremental model, whose per-world caches need
concrete owners).  The classification tests of a world are uninterpreted predicates; every rule is evaluated
under every assignment of them."""
from __future__ import annotations

import itertools

from .. import formula as F
from ..absint import iter_events, Interp, RaiseSig
from ..absvals import (Const, Sym, PredV, FormulaV, LinV, Ref, ElemV, TupleV, HObj, HDict, HList, HSolver, HOpaque, PTRUE,
                       desc, show_pred)
from ..front import AnalysisError
from ..harness import (Explorer, A, B, verification, falsification, fn_label, decided, view, canon_items, flat, show_items,
                       COND_CLASS, returned_bool, KEYS_D)
from . import wrappers, preocf

MOD = "inference.c_revision"
MMOD = "inference.c_revision_model"
CM = MMOD + ".CRevisionModel"
WORLDS = preocf.WORLDS
GW = ("var", "_w")


def X(k):
    return ("obj", f"c{k}")


def WV(n):
    return ElemV(("obj", f"w{n}"), "key")


VER = {k: F.canon(verification(X(k))) for k in (1, 2, 3)}
FAL = {k: F.canon(falsification(X(k))) for k in (1, 2, 3)}


# ----------------------------------------------------------------------------------------------
# summaries
# ----------------------------------------------------------------------------------------------
def wsc_summary(I, fi, args, kwargs, node):
    """world_satisfies_conditionalization(world, φ): SAT(world literals ∧ φ) - established by REV.classify
    [satisfaction test] below; here an uninterpreted predicate of (world, φ)."""
    f = args[2]
    I.log("wsat", node, world=args[1], formula=f)
    return PredV(("wsat", desc(args[1]), F.canon(f.f) if isinstance(f, FormulaV) else desc(f)))


def masks_summary(I, fi, args, kwargs, node):
    """_extract_cond_masks(cond, sig_index): None, or the literal description (a_idx, a_val, c_idx, c_val) - established
    by MASK.literal; here four opaque integers per conditional."""
    o = I.deref(args[0])
    k = o.attrs["index"].value
    # (named after the conditional itself, not after the number it carries: another conditional filed under a number that was
    #  in use before has a mask of its own)
    af = o.attrs.get("antecedence")
    for k_ in (1, 2, 3):
        if isinstance(af, FormulaV) and af.f == A(X(k_)):
            k = k_
    I.log("masks", node, cond=k, sig=args[1])
    if I.ctx.decide(("masknone", k)):
        return Const(None)
    return TupleV((Sym(("aidx", k), "int"), Sym(("aval", k), "int"), Sym(("cidx", k), "int"), Sym(("cval", k), "int")))


def _summ(extra=None):
    s = preocf._summ({"inference.preocf.PreOCF.world_satisfies_conditionalization": wsc_summary,
                      MOD + "._extract_cond_masks": masks_summary, MMOD + "._extract_cond_masks": masks_summary})
    if extra:
        s.update(extra)
    return s


def mkcond(I, k):
    return I.alloc(HObj(COND_CLASS, {"antecedence": FormulaV(A(X(k)), "pysmt"), "consequence": FormulaV(B(X(k)), "pysmt"),
                                     "index": Const(k), "textRepresentation": Const(f"c{k}"), "weak": Const(False)}))


def mkrf_concrete(I, nworlds):
    d = HDict()
    d.symkeys = {}
    for n in range(1, nworlds + 1):
        w = WV(n)
        d.entries[("d", desc(w))] = Sym(("storedrank", n), "optint")
        d.symkeys[("d", desc(w))] = w
    return I.alloc(HObj(preocf.CUS, {"ranks": I.alloc(d), "signature": ElemV(preocf.SIG, "coll", "str"), "conditionals": Const(None)}))


# ----------------------------------------------------------------------------------------------
# classification atoms
# ----------------------------------------------------------------------------------------------
def _wnorm(wd, binder):
    if binder is not None and wd == ("elem", binder, "key"):
        return "w"
    if isinstance(wd, tuple) and len(wd) == 3 and wd[0] == "elem" and isinstance(wd[1], tuple) and wd[1][:1] == ("obj",):
        return wd[1][1]
    return None


def atom_of(p, binder=None):
    """('v'|'f'|'la'|'lc', world, k) for a classification test, else None."""
    if p[0] == "wsat":
        w = _wnorm(p[1], binder)
        for k in (1, 2, 3):
            if p[2] == VER[k]:
                return ("v", w, k)
            if p[2] == FAL[k]:
                return ("f", w, k)
        return None
    if p[0] == "cmp" and p[1] == "==" and isinstance(p[2], tuple) and p[2][:1] == ("lin",) and p[3] == ("c", 0):
        terms, c = p[2][1]
        if c != 0 or len(terms) != 2:
            return None
        t = dict(terms)
        for k in (1, 2, 3):
            for what, idx, val in (("la", ("aidx", k), ("aval", k)), ("lc", ("cidx", k), ("cval", k))):
                if val in t and abs(t[val]) == 1:
                    other = [x for x in t if x != val]
                    if len(other) == 1 and t[other[0]] == -t[val]:
                        o = other[0]
                        # int(bits(world)[idx])
                        if isinstance(o, tuple) and o[0] == "int" and isinstance(o[1], tuple) and o[1][0] == "elem" and isinstance(o[1][1], tuple) and o[1][1][0] == "at":
                            at = o[1][1]
                            if isinstance(at[2], tuple) and at[2][:1] == ("lin",):
                                np_ = _norm_pos(at[2][1])
                                np_ = (tuple((t_, c_) for t_, c_ in np_[0] if c_ != 0), np_[1])
                                at = (at[0], at[1], ("lin", np_))
                            if at[2] == ("lin", (((idx, 1),), 0)):
                                w = _wnorm(at[1], binder)
                                return (what, w, k)
                            if isinstance(at[2], tuple) and at[2][0] == "lin" and len(at[2][1][0]) == 1 and at[2][1][0][0][0][0] in ("aidx", "cidx"):
                                raise MixedTest(f"bit at {at[2][1][0][0][0]} compared with {val}")
                            if isinstance(at[2], tuple) and at[2][0] == "lin" and any(isinstance(t_, tuple) and t_[:1] in (("aidx",), ("cidx",)) for t_, c_ in at[2][1][0]):
                                # the position of some literal enters, but the bit read is not the one at that position
                                raise MixedTest(f"bit at position {F.show_lin(at[2][1])} compared with {val} (the atom of that literal sits at position {idx[0]}_{idx[1]} of the world)")
        return None
    return None


def _norm_pos(lin):
    """A position expression with `element at position p of range(lo, hi)` replaced by lo + p."""
    out = F.lin_const(lin[1])
    for t, c in lin[0]:
        if isinstance(t, tuple) and len(t) == 3 and t[0] == "elem" and t[2] == "pos" and isinstance(t[1], tuple) and len(t[1]) == 3 and t[1][0] == "at" \
                and isinstance(t[1][1], tuple) and t[1][1][:1] == ("range",) and len(t[1][1]) == 3 and isinstance(t[1][2], tuple) and t[1][2][:1] == ("lin",):
            out = F.lin_add(out, F.lin_add(t[1][1][1], _norm_pos(t[1][2][1])), c)
        elif isinstance(t, tuple) and len(t) == 2 and t[0] == "len" and isinstance(t[1], tuple) and t[1][:1] in (("var",), ("obj",)):
            # a world is a bit string over the signature: it is as long as the signature
            out = F.lin_add(out, F.lin_term(("len", ("signature",))), c)
        else:
            out = F.lin_add(out, F.lin_term(t), c)
    return out


class MixedTest(Exception):
    """A bit test that pairs the position of one literal with the polarity of another."""


def eval_guard(p, env, binder=None):
    k = p[0]
    if k == "const":
        return p[1]
    if k == "not":
        return not eval_guard(p[1], env, binder)
    if k == "and":
        return all(eval_guard(q, env, binder) for q in p[1])
    if k == "or":
        return any(eval_guard(q, env, binder) for q in p[1])
    a = atom_of(p, binder)
    if a is None or a[1] is None:
        raise AnalysisError(f"unrecognised classification test {show_pred(p)[:200]}")
    if a not in env:
        raise KeyError(a)
    return env[a]


def envs_for(worlds, masked):
    """All assignments of the classification atoms: per (world, conditional) verified / falsified / neither; for a
    conditional with literal mask via the two bit tests (la: antecedent literal holds, lc: consequent literal holds)."""
    cells = [(w, k) for w in worlds for k in sorted(masked)]
    opts = []
    for w, k in cells:
        if masked[k]:
            opts.append([(la, lc) for la in (True, False) for lc in (True, False)])
        else:
            opts.append([(True, False), (False, True), (False, False)])
    for combo in itertools.product(*opts):
        env = {}
        for (w, k), val in zip(cells, combo):
            if masked[k]:
                la, lc = val
                env[("la", w, k)] = la
                env[("lc", w, k)] = lc
                env[("v", w, k)] = la and lc
                env[("f", w, k)] = la and not lc
            else:
                env[("v", w, k)], env[("f", w, k)] = val
        yield env


def _consts(vw, what):
    if not (isinstance(vw, tuple) and vw[0] == "list"):
        raise AnalysisError(f"{what}: not a list: {vw!r}"[:200])
    out = []
    for s in vw[1]:
        if s[0] == "one" and isinstance(s[1], Const):
            out.append(s[1].value)
        else:
            raise AnalysisError(f"{what}: non-concrete member {s!r}"[:200])
    return tuple(sorted(out))


def _triple(vw, binder):
    """(rank world, accepted indices, rejected indices) of a triple view."""
    if isinstance(vw, tuple) and vw[0] == "tuple":
        items = list(vw[1])
    elif isinstance(vw, tuple) and vw[0] == "list" and all(s[0] == "one" for s in vw[1]):
        items = [s[1] for s in vw[1]]
    else:
        raise AnalysisError(f"triple of unknown shape {vw!r}"[:200])
    if len(items) != 3:
        return ("arity", len(items))
    r = items[0]
    rw = None
    if isinstance(r, Sym) and isinstance(r.label, tuple) and r.label[:1] == ("rank",):
        rw = _wnorm(r.label[1], binder)
    return (("rank", rw) if rw is not None else ("other", repr(r)), _consts(items[1], "accepted"), _consts(items[2], "rejected"))


def extracted_lists(state, dref, env):
    """{key: multiset of triples} of a vMin / fMin dictionary under an assignment."""
    d = state.heap.get(dref.oid) if isinstance(dref, Ref) else None
    if not isinstance(d, HDict) or d.each or d.sym:
        raise AnalysisError("compilation result is not a dictionary with one entry per conditional")
    out = {}
    for key, v in d.entries.items():
        vw = view(state, v)
        if not (isinstance(vw, tuple) and vw[0] == "list"):
            raise AnalysisError(f"entry {key!r} is not a list")
        got = []
        for s in vw[1]:
            if s[0] == "one":
                got.append(_triple(s[1], None))
            elif s[0] == "each" and s[2] == WORLDS:
                if eval_guard(s[3], env, s[1]):
                    got.append(_triple(s[4], s[1]))
            else:
                raise AnalysisError(f"entry {key!r}: segment {s[0]} over {s[2] if len(s) > 2 else ''}")
        out[key] = sorted(got, key=repr)
    return out


def spec_lists(worlds, keys, env):
    v, f = {}, {}
    for k in keys:
        v[k], f[k] = [], []
        for w in worlds:
            acc = tuple(sorted(j for j in keys if j != k and env[("v", w, j)]))
            rej = tuple(sorted(j for j in keys if j != k and env[("f", w, j)]))
            t = (("rank", w), acc, rej)
            if env[("v", w, k)]:
                v[k].append(t)
            elif env[("f", w, k)]:
                f[k].append(t)
        v[k].sort(key=repr)
        f[k].sort(key=repr)
    return v, f


def _show_env(env):
    return ", ".join(f"{a[0]}{a[2]}({a[1]})={'T' if b else 'F'}" for a, b in sorted(env.items()) if a[0] in ("v", "f"))


def check_sig_index(rep, site, p):
    """MASK.positions: the name → position table handed to the mask extraction maps every signature entry to its own
    position (the position its bit has in a world string, WORLD.literals)."""
    SIGF = ("members", preocf.SIG)
    seen = False
    for ev, Q in iter_events(p.events):
        if ev.kind != "masks" or seen:
            continue
        seen = True
        d = p.state.heap.get(ev.sig.oid) if isinstance(ev.sig, Ref) else None
        ok = False
        got = repr(ev.sig)
        if isinstance(d, HDict) and not d.entries and not d.sym and len(d.each) == 1:
            _, b, fam, g, kt, vt = d.each[0]
            ok = fam == SIGF and g == PTRUE and isinstance(kt, ElemV) and kt.var == b and isinstance(vt, LinV) and vt.lin == ((((("pos", b, SIGF)), 1),), 0)
            got = f"{F.show_desc(fam)}: {kt!r} -> {vt!r}"
        rep.check(ok, "MASK.positions", site, "name → position table", "every atom of the signature is mapped to its own position in the signature", extracted=got[:200], required="{v: i for i, v in enumerate(signature)}", function=site)
    return seen


def compare_compilation(rep, rule, site, label, state, rv, worlds, keys, envs, function):
    """REV.classify + REV.triple-positions (writer): the returned (vMin, fMin) against the specification, under every
    assignment in `envs`."""
    if not (isinstance(rv, TupleV) and len(rv.items) == 2):
        rep.violation(rule, site, label, "the compilation is a pair (vMin, fMin)", extracted=repr(rv)[:120], required="(vMin, fMin)", function=function)
        return 0
    n = 0
    bad = {}
    for env in envs:
        n += 1
        try:
            gv = extracted_lists(state, rv.items[0], env)
            gf = extracted_lists(state, rv.items[1], env)
        except KeyError as e:
            raise AnalysisError(f"{site}: {label}: test {e} outside the instantiation")
        except MixedTest as e:
            rep.violation(rule, site, f"{label}: bit test", "a literal is tested by comparing the bit at its own position with its own polarity", extracted=str(e), required="bits[a_idx]==a_val / bits[c_idx]==c_val", function=function)
            return n
        sv, sf = spec_lists(worlds, keys, env)
        for side, got, want in (("vMin", gv, sv), ("fMin", gf, sf)):
            if set(got) != set(want):
                bad.setdefault((side, "keys"), (f"keys {sorted(got)}", f"keys {sorted(want)}", env))
                continue
            for k in keys:
                if got[k] != want[k]:
                    bad.setdefault((side, k), (f"{got[k]}", f"{want[k]}", env))
    for side in ("vMin", "fMin"):
        for k in ["keys"] + list(keys):
            slot = f"{label}: {side}[{k}]" if k != "keys" else f"{label}: {side} keys"
            if (side, k) in bad:
                g, w, env = bad[(side, k)]
                rep.violation(rule, site, slot, "a world contributes (rank, accepted others, rejected others) to vMin[i] iff it verifies c_i, to fMin[i] iff it falsifies c_i",
                              extracted=f"under {_show_env(env)}: {g}", required=w, function=function)
            else:
                rep.ok(rule, site, slot, f"agrees with the specification under all {n} assignments of the classification tests")
    return n


# ----------------------------------------------------------------------------------------------
def classify(rep, ex: Explorer, fn: str):
    """REV.classify on compile_alt / compile_alt_fast (generic worlds, two concrete conditionals)."""
    qual = f"{MOD}.{fn}"
    site = fn_label(ex.prog, qual)

    def setup(I):
        revs = I.new_list([mkcond(I, 1), mkcond(I, 2)])
        return [preocf._obj(I), revs], {}

    paths = ex.run(qual, setup, summaries=_summ(), key="crev-" + fn)
    n = 0
    for p in paths:
        if p.outcome[0] != "return":
            rep.violation("REV.classify", site, f"outcome {p.outcome[0]}", "the compilation of well-formed conditionals returns", extracted=repr(p.outcome[1])[:100], required="return", function=site)
            continue
        masked = {k: (decided(p, ("masknone", k)) is False) for k in (1, 2)}
        from ..harness import early_exits
        left = [(lev, case) for lev, case in early_exits(p) if case.sig[0] in ("break", "return") and lev.fam == preocf.WORLDS]
        if left:
            lev, case = left[0]
            g = " ∧ ".join(show_pred(k if v else ("not", k))[:60] for k, v in case.guard) or "always"
            rep.violation("REV.classify", f"{site}:{lev.node.lineno}", "every world", "every world of the prior ranking is classified: the loop over the worlds runs to its end",
                          extracted=f"the loop over the worlds is left by {case.sig[0]} at a world with {g}: the worlds after it are not compiled", required="skip that world only (continue)", function=site)
            continue
        check_sig_index(rep, site, p)
        label = "masks " + ",".join(f"c{k}:{'literal' if masked[k] else 'solver'}" for k in (1, 2))
        n += compare_compilation(rep, "REV.classify", site, label, p.state, p.outcome[1], ["w"], (1, 2), envs_for(["w"], masked), site)
    rep.floor(f"REV.classify assignments of {fn}", n, 9)


def _path_envs(p, worlds, keys_all):
    """Assignments of the classification atoms consistent with what the path decided."""
    masked = {k: (decided(p, ("masknone", k)) is False) for k in keys_all}
    fixed = {}
    for key, val in p.decisions:
        try:
            a = atom_of(key, None)
        except MixedTest:
            a = None
        if a is not None and a[1] is not None:
            fixed[a] = val
    out = []
    for env in envs_for(worlds, masked):
        if all(env.get(a) == v for a, v in fixed.items()):
            out.append(env)
    return masked, out


SEQUENCES = {
    # name: (initial conditionals, operations, conditionals of the fresh model it must equal)
    "fresh [c1,c2]": ((1, 2), (), (1, 2)),
    "[c1] + add c2": ((1,), (("add", 2),), (1, 2)),
    "[c1,c2] - remove 2": ((1, 2), (("remove", 2),), (1,)),
    "[c1,c2] - remove 1": ((1, 2), (("remove", 1),), (2,)),
    "[c1] + add c2 - remove 1": ((1,), (("add", 2), ("remove", 1)), (2,)),
    "[c1,c2] - remove 3 (absent)": ((1, 2), (("remove", 3),), (1, 2)),
    "[c1,c2], compiled twice": ((1, 2), (("compile",),), (1, 2)),
    "[c1] + add c2 - remove 2 + add c2": ((1,), (("add", 2), ("remove", 2), ("add", 2)), (1, 2)),
    # another conditional under a number that was in use before (3 stands for "the new conditional, numbered 2"): whatever
    # the model remembers of the old number 2 - also a compilation it handed out - must be gone
    "[c1,c2], compiled, - remove 2 + add another conditional as 2": ((1, 2), (("compile",), ("remove", 2), ("add", 3)), (1, 3)),
}
ALIAS = {3: 2}  # conditional 3 of the instantiation carries index 2


def model_sequences(rep, ex: Explorer, nworlds=2, only=None):
    """REV.classify on the incremental model and REV.incremental: after any of the listed add/remove sequences
    `to_compilation()` equals the specification for the model's current conditionals (what a fresh model gives)."""
    qual = f"{CM}.to_compilation"
    site = fn_label(ex.prog, qual)
    worlds = [f"w{n}" for n in range(1, nworlds + 1)]
    total = 0
    for name, (init, ops, final) in SEQUENCES.items():
        if only and name not in only:
            continue

        def setup(I, init=init, ops=ops):
            rf = mkrf_concrete(I, nworlds)
            conds = {k: mkcond(I, k) for k in (1, 2)}
            c3 = mkcond(I, 3)
            I.deref(c3).attrs["index"] = Const(ALIAS[3])
            conds[3] = c3
            m = I.alloc(HObj(CM, {}))
            I.call_function(ex.prog.function(CM + ".__init__"), [m, rf, I.new_list([conds[k] for k in init])], {}, None)
            for op in ops:
                if op[0] == "add":
                    I.call_function(ex.prog.function(CM + ".add_conditional"), [m, conds[op[1]]], {}, None)
                elif op[0] == "remove":
                    I.call_function(ex.prog.function(CM + ".remove_conditional"), [m, Const(op[1])], {}, None)
                elif op[0] == "compile":
                    I.call_function(ex.prog.function(CM + ".to_compilation"), [m], {}, None)
            return [m], {}

        try:
            paths = ex.run(qual, setup, summaries=_summ(), key=f"crevm-{nworlds}-{name}")
        except RaiseSig as r:
            rep.violation("REV.incremental", site, name, "the sequence of model operations completes", extracted=f"raises {r.exc!r}", required="no exception", function=site)
            continue
        rule = "REV.classify" if not ops else "REV.incremental"
        n = 0
        bad = None
        if paths and not ops:
            check_sig_index(rep, fn_label(ex.prog, CM + ".__init__"), paths[0])
        for p in paths:
            if p.outcome[0] != "return":
                bad = bad or (f"outcome {p.outcome[0]} {p.outcome[1]!r}"[:160], "return", {})
                continue
            masked, envs = _path_envs(p, worlds, (1, 2, 3) if 3 in final else (1, 2))
            rv = p.outcome[1]
            if not (isinstance(rv, TupleV) and len(rv.items) == 2):
                bad = bad or (repr(rv)[:100], "(vMin, fMin)", {})
                continue
            for env in envs:
                n += 1
                gv = extracted_lists(p.state, rv.items[0], env)
                gf = extracted_lists(p.state, rv.items[1], env)
                sv, sf = spec_lists(worlds, final, env)
                if 3 in final:
                    ren = lambda k_: ALIAS.get(k_, k_)  # noqa: E731
                    sv, sf = [{ren(k_): sorted([(t[0], tuple(sorted(map(ren, t[1]))), tuple(sorted(map(ren, t[2])))) for t in ts], key=repr) for k_, ts in d_.items()} for d_ in (sv, sf)]
                if (gv, gf) != (sv, sf) and bad is None:
                    side = "vMin" if gv != sv else "fMin"
                    g, w = (gv, sv) if gv != sv else (gf, sf)
                    bad = (f"{side} = {g}", f"{side} = {w}", env)
        total += n
        if bad is not None:
            g, w, env = bad
            rep.violation(rule, site, f"{name} ({nworlds} world{'s' if nworlds > 1 else ''})", "the incremental model compiles to what the specification gives for its current conditionals", extracted=(f"under {_show_env(env)}: " if env else "") + g[:300], required=w[:300], function=site)
        else:
            rep.ok(rule, site, f"{name} ({nworlds} world{'s' if nworlds > 1 else ''})", f"to_compilation() equals the specification for {list(final)} on all {len(paths)} paths / {n} assignments ({nworlds} worlds)")
    rep.floor(f"REV.incremental assignments ({nworlds} worlds)", total, 9 * (len(only) if only else len(SEQUENCES)))


def wsat_meaning(rep, ex: Explorer):
    """REV.classify [satisfaction test]: world_satisfies_conditionalization(w, φ) = SAT(literals of w ∧ φ)."""
    qual = f"{preocf.PO}.world_satisfies_conditionalization"
    site = fn_label(ex.prog, qual)
    Wd = ("obj", "world")
    PHI = ("opaque", "PHI")

    def setup(I):
        return [preocf._obj(I), ElemV(Wd, "key"), FormulaV(PHI, "pysmt")], {}

    paths = ex.run(qual, setup, summaries=preocf._summ(), key="wsat")
    n = 0
    for p in paths:
        if p.outcome[0] != "return":
            continue
        qs = [ev for ev, Q in iter_events(p.events) if ev.kind == "query"]
        n += 1
        if len(qs) != 1:
            rep.violation("REV.classify", site, "satisfaction test", "one satisfiability test", extracted=f"{len(qs)} tests", required="1", function=site)
            continue
        want = preocf.world_items(Wd) + [("f", PHI)]
        rep.check(canon_items(flat(qs[0].frames)) == canon_items(want), "REV.classify", f"{site}:{qs[0].node.lineno}", "satisfaction test scope",
                  "the test is asked over the world's literals and the formula, nothing else", extracted=show_items(flat(qs[0].frames)), required=show_items(want), function=site)
        pr = returned_bool(None, p.outcome[1])
        rep.check(pr == ("sat", qs[0].qid), "REV.classify", site, "satisfaction test verdict", "a world satisfies the formula iff the test is satisfiable", extracted=show_pred(pr), required="SAT", function=site)
    rep.floor("world_satisfies_conditionalization paths", n, 1)


def mask_literal(rep, ex: Explorer, mod: str):
    """MASK.literal on _extract_cond_masks / _literal_info (both copies): the mask of a conditional is
    (position of the antecedent's variable, its polarity, position of the consequent's variable, its polarity) when
    both are literals (x: polarity 1, ¬x: polarity 0, variable taken from under the negation), else None."""
    qual = f"{mod}._extract_cond_masks"
    site = fn_label(ex.prog, qual)

    def setup(I):
        c = I.alloc(HObj(COND_CLASS, {"antecedence": FormulaV(("opaque", "ANT"), "pysmt"), "consequence": FormulaV(("opaque", "CONS"), "pysmt"), "index": Const(1)}))
        b = I.fresh_var("s")
        sig = I.alloc(HDict(each=[("each", b, ("members", ("signature",)), PTRUE, ElemV(b, "str"), Sym(("pos", b), "int"))]))
        return [c, sig], {}

    paths = ex.run(qual, setup, summaries=dict(wrappers.SUMMARIES), key="mask-" + mod)

    def lit(p, part):
        """(variable formula, polarity) of a part on this path per the specification, or None."""
        f = ("f", ("opaque", part))
        inner = ("f", ("opaque", ("arg", ("opaque", part), ("c", 0))))
        s = decided(p, ("fnode", "is_symbol", f))
        if s is True:
            return (f, 1)
        if s is False and decided(p, ("fnode", "is_not", f)) is True and decided(p, ("fnode", "is_symbol", inner)) is True:
            return (inner, 0)
        if s is None:
            return "undecided"
        return None

    n = 0
    for p in paths:
        if p.outcome[0] != "return":
            # a lookup failure is handled inside; anything else is unexpected
            rep.violation("MASK.literal", site, "outcome", "the extraction returns a mask or None", extracted=repr(p.outcome)[:120], required="return", function=site)
            continue
        la, lc = lit(p, "ANT"), lit(p, "CONS")
        rv = p.outcome[1]
        n += 1
        case = f"antecedent {'literal' if isinstance(la, tuple) else la}, consequent {'literal' if isinstance(lc, tuple) else lc}"
        if la is None or lc is None:
            rep.check(isinstance(rv, Const) and rv.value is None, "MASK.literal", site, case, "no mask unless both parts are literals (the solver classifies)", extracted=repr(rv)[:160], required="None", function=site)
            continue
        if isinstance(rv, Const) and rv.value is None:
            # declining the fast path is always sound
            rep.ok("MASK.literal", site, case + " → None", "the fast path is declined (the solver classifies)")
            continue
        if la == "undecided" or lc == "undecided":
            rep.violation("MASK.literal", site, case, "a mask is built only after both parts were recognised as literals", extracted=repr(rv)[:160], required="None or tested literals", function=site)
            continue
        want = []
        for f, pol in (la, lc):
            want.append(("sym", ("dictitem", ("symbol_name", f))))
            want.append(("const", pol))
        got = []
        if isinstance(rv, TupleV) and len(rv.items) == 4:
            for it in rv.items:
                if isinstance(it, Const):
                    got.append(("const", it.value))
                elif isinstance(it, Sym) and isinstance(it.label, tuple) and it.label[:1] == ("dictitem",):
                    got.append(("sym", ("dictitem", it.label[2])))
                else:
                    got.append(("other", repr(it)))
        rep.check(got == want, "MASK.literal", site, case, "(position of the antecedent variable, polarity, position of the consequent variable, polarity)",
                  extracted=repr(got)[:300], required=repr(want)[:300], function=site)
    rep.floor(f"MASK.literal paths of {mod}", n, 9)


# ----------------------------------------------------------------------------------------------
# translate_to_csp with symbolize_minima_expression inlined
# ----------------------------------------------------------------------------------------------
IDX = ("members", ("idx",))
FPD, FMD = ("fixedplus",), ("fixedminus",)
XJ = ("X",)


def _gen(x, binder):
    """Replace every reference to the loop element (whatever its role) by the placeholder X."""
    if isinstance(x, tuple):
        if len(x) == 3 and x[0] == "elem" and x[1] == binder:
            return XJ
        return tuple(_gen(i, binder) for i in x)
    return x


def _param_class(lin):
    """Classify a (generalised) linear value: the fixed value / free symbol of gamma+ or gamma-, zero, or other."""
    terms, c = lin
    if not terms:
        return "zero" if c == 0 else f"const {c}"
    if len(terms) == 1 and c == 0 and terms[0][1] == 1:
        t = terms[0][0]
        if t == ("int", ("item", ("elem", FPD, "optional"), XJ)):
            return "fixed+"
        if t == ("int", ("item", ("elem", FMD, "optional"), XJ)):
            return "fixed-"
        if t == ("isym", ("name", ("gamma+_", XJ))):
            return "sym+"
        if t == ("isym", ("name", ("gamma-_", XJ))):
            return "sym-"
    return "other " + F.show_lin(lin)[:80]


def _fix_env(p, inFP, inFM):
    return {"FP": inFP, "FM": inFM}


def _eval_fix_guard(g, binder, env):
    k = g[0]
    if k == "const":
        return g[1]
    if k == "not":
        return not _eval_fix_guard(g[1], binder, env)
    if k == "and":
        return all(_eval_fix_guard(q, binder, env) for q in g[1])
    if k == "or":
        return any(_eval_fix_guard(q, binder, env) for q in g[1])
    if k == "in":
        gg = _gen(g, binder)
        if gg == ("in", XJ, FPD):
            return env["FP"]
        if gg == ("in", XJ, FMD):
            return env["FM"]
    if k == "truthy":
        # truthiness of the fixed value itself (`fixed.get(i)`, `fixed[i]`): the index is listed and its value is not zero
        gg = _gen(g, binder)
        v = gg[1]
        while isinstance(v, tuple) and v[:1] == ("int",):
            v = v[1]
        for D, key in ((FPD, "FP"), (FMD, "FM")):
            if isinstance(v, tuple) and ((v[:1] == ("mcall",) and len(v) > 3 and v[1] == ("elem", D, "optional") and v[2] == "get" and v[3][:1] == (XJ,))
                                         or (v[:1] == ("item",) and v[1] == ("elem", D, "optional") and v[2] == XJ)):
                return env[key] and not env.get(key + "z", False)
    raise AnalysisError(f"unrecognised guard {show_pred(g)[:160]}")


def spec_param(sign, fixed, zero):
    if sign == "+":
        return "fixed+" if fixed else ("zero" if zero else "sym+")
    return "fixed-" if fixed else "sym-"


WRONG_FREE = "the free symbol of that parameter instead of its fixed value"


def translate(rep, ex: Explorer):
    """REV.relation [parameters, non-negativity, wiring], REV.one-term, REV.triple-positions (reader) and
    REV.fixed-everywhere on translate_to_csp with symbolize_minima_expression inlined."""
    qual = f"{MOD}.translate_to_csp"
    site = fn_label(ex.prog, qual)
    ssite = fn_label(ex.prog, f"{MOD}.symbolize_minima_expression")

    def comp(I, tag):
        b = I.fresh_var("n")
        return I.alloc(HDict(each=[("each", b, IDX, PTRUE, ElemV(b, "key"), ElemV((tag, b), "coll", "triple"))]))

    def setup(I):
        c = TupleV((comp(I, "vtr"), comp(I, "ftr")))
        return [c, Sym("gpz", "bool")], {"fixed_gamma_plus": ElemV(FPD, "optional", "dict"), "fixed_gamma_minus": ElemV(FMD, "optional", "dict")}

    def enc(I, fi, args, kwargs, node):
        I.log("enc", node, args=tuple(args), kwargs=dict(kwargs))
        return I.alloc(HList([("sym", "ENC")]))

    summ = dict(wrappers.SUMMARIES)
    summ[f"{MOD}.encoding"] = enc
    paths = ex.run(qual, setup, summaries=summ, key="crev-translate")
    n = 0
    for p in paths:
        if p.outcome[0] != "return":
            rep.violation("REV.relation", site, "outcome", "the translation returns a constraint list", extracted=repr(p.outcome)[:100], required="return", function=site)
            continue
        nFP, nFM, Z = decided(p, ("isnone", FPD)), decided(p, ("isnone", FMD)), decided(p, ("truthy", "gpz"))
        mode = f"fixed+ {'absent' if nFP else 'given'}, fixed- {'absent' if nFM else 'given'}, gamma_plus_zero={Z}"
        encs = [ev for ev, Q in iter_events(p.events) if ev.kind == "enc"]
        if len(encs) != 1 or len(encs[0].args) != 3:
            rep.violation("REV.relation", site, f"encoding call ({mode})", "the constraints come from one call of encoding(gammas, vSums, fSums)", extracted=f"{len(encs)} call(s)", required="1", function=site)
            continue
        n += 1
        gam, vs, fs = encs[0].args
        cases = [(fp, fm) for fp in ((False,) if nFP else (True, False)) for fm in ((False,) if nFM else (True, False))]
        # --- the parameter table -------------------------------------------------------------------
        gd = p.state.heap.get(gam.oid) if isinstance(gam, Ref) else None
        if not isinstance(gd, HDict) or gd.entries or gd.sym:
            raise AnalysisError(f"{site}: gammas is not a per-index mapping")
        # (a fixed value may be 0: listed in the mapping all the same)
        zcases = [(fp, fm, fpz, fmz) for fp, fm in cases for fpz in ((False, True) if fp else (False,)) for fmz in ((False, True) if fm else (False,))]
        for fp, fm, fpz, fmz in zcases:
            env = {"FP": fp, "FM": fm, "FPz": fpz, "FMz": fmz}
            hit = [e for e in gd.each if e[2] == IDX and _eval_fix_guard(e[3], e[1], env)]
            # (the pair as a record of two fields - a NamedTuple - reads as the tuple of its fields)
            for j_, e in enumerate(hit):
                ro = p.state.heap.get(e[5].oid) if isinstance(e[5], Ref) else None
                if isinstance(ro, HObj) and len(ro.attrs) == 2:
                    hit[j_] = e[:5] + (TupleV(tuple(ro.attrs.values())),)
            case = f"{mode}; index {'fixed+' if fp else 'free+'}{' (to 0)' if fpz else ''}/{'fixed-' if fm else 'free-'}{' (to 0)' if fmz else ''}"
            if len(hit) != 1 or not (isinstance(hit[0][5], TupleV) and len(hit[0][5].items) == 2) or not (isinstance(hit[0][4], ElemV) and hit[0][4].var == hit[0][1]):
                rep.violation("REV.relation", site, f"parameters ({case})", "one (gamma+, gamma-) pair per index of the compilation, stored under that index", extracted=f"{len(hit)} entries", required="1", function=site)
                continue
            b = hit[0][1]
            got = tuple(_param_class(_gen(v.lin, b)) if isinstance(v, LinV) else "other " + repr(v)[:60] for v in hit[0][5].items)
            want = (spec_param("+", fp, Z), spec_param("-", fm, Z))
            rep.check(got == want, "REV.relation", site, f"parameters ({case})", "gamma+ is its fixed value, else 0 when gamma+ are fixed to zero, else the symbol gamma+_i; gamma- is its fixed value or the symbol gamma-_i",
                      extracted=f"(gamma+, gamma-) = {got}", required=str(want), function=site)
        # --- non-negativity --------------------------------------------------------------------------
        vw = view(p.state, p.outcome[1])
        if not (isinstance(vw, tuple) and vw[0] == "list"):
            raise AnalysisError(f"{site}: result is not a list")
        has_enc = any(sg == ("sym", "ENC") for sg in vw[1])
        rep.check(has_enc, "REV.relation", site, f"constraints kept ({mode})", "the acceptance constraints of encoding() are part of the result", extracted="present" if has_enc else "dropped", required="present", function=site)
        for fp, fm in cases:
            env = {"FP": fp, "FM": fm}
            got = set()
            for sg in vw[1]:
                if sg[0] == "each" and sg[2] == IDX and isinstance(sg[4], FormulaV):
                    if _eval_fix_guard(sg[3], sg[1], env):
                        f = _gen(sg[4].f, sg[1])
                        if f[0] == "rel" and f[1][0]:
                            cls = _param_class((f[1][0], 0)) if len(f[1][0]) == 1 else "other"
                            got.add(f"{cls} {f[2]} {-f[1][1]}")
                        elif f[0] != "rel":
                            got.add("other " + F.show(f)[:60])
                elif sg[0] in ("each", "one") and sg != ("sym", "ENC") and not (sg[0] == "one" and isinstance(sg[1], FormulaV) and sg[1].f[0] == "rel" and not sg[1].f[1][0]):
                    got.add("other segment")
            want = set()
            if spec_param("+", fp, Z) == "sym+":
                want.add("sym+ >= 0")
            if spec_param("-", fm, Z) == "sym-":
                want.add("sym- >= 0")
            case = f"{mode}; index {'fixed+' if fp else 'free+'}/{'fixed-' if fm else 'free-'}"
            rep.check(got == want, "REV.relation", site, f"non-negativity ({case})", "exactly the symbolic parameters are constrained to be non-negative", extracted=str(sorted(got)), required=str(sorted(want)), function=site)
        # --- the sums ------------------------------------------------------------------------------------
        for tag, arg, name in (("vtr", vs, "vSums"), ("ftr", fs, "fSums")):
            d = p.state.heap.get(arg.oid) if isinstance(arg, Ref) else None
            if not isinstance(d, HDict) or d.entries or d.sym or len(d.each) != 1:
                rep.violation("REV.relation", site, f"{name} ({mode})", f"{name} holds the summands of compilation[{0 if tag == 'vtr' else 1}] per index", extracted=repr(arg)[:80], required="symbolize_minima_expression(compilation[..])", function=site)
                continue
            _, ib, fam, g, kt, vt = d.each[0]
            lv = view(p.state, vt)
            okw = fam == IDX and g == PTRUE and isinstance(kt, ElemV) and kt.var == ib
            segs = [sg for sg in lv[1]] if isinstance(lv, tuple) and lv[0] == "list" else []
            fams = {sg[2] for sg in segs if sg[0] == "each"}
            okw = okw and fams == {("members", (tag, ib))}
            rep.check(okw, "REV.relation", site, f"{name} wiring ({mode})", f"{name}[i] ranges over the triples of index i of the {'verifying' if tag == 'vtr' else 'falsifying'} side",
                      extracted=f"{sorted(map(repr, fams))}"[:200], required=f"triples of ({tag}, i)", function=site)
            if not okw:
                continue
            # REV.one-term: under every shape of a triple (accepted / rejected list empty or not) exactly one summand
            eachs = [sg for sg in segs if sg[0] == "each"]
            if len(eachs) != len(segs) or not eachs:
                rep.violation("REV.one-term", ssite, f"{name} ({mode})", "the summands of an index come from its world triples only", extracted=f"{len(segs) - len(eachs)} unconditional item(s)", required="one summand per triple", function=ssite)
                continue
            for ne1, ne2 in ((True, True), (True, False), (False, True), (False, False)):
                shape = f"accepted {'non-empty' if ne1 else 'empty'}, rejected {'non-empty' if ne2 else 'empty'}"

                def ev(g, tb):
                    k = g[0]
                    if k == "const":
                        return g[1]
                    if k == "not":
                        return not ev(g[1], tb)
                    if k == "and":
                        return all(ev(q, tb) for q in g[1])
                    if k == "or":
                        return any(ev(q, tb) for q in g[1])
                    if g[0] == "cmp" and g[1] in ("<", "==") and isinstance(g[2], tuple) and g[2][0] == "lin" and g[3] == ("c", 0) and all(t == ("len", tb) for t, c in g[2][1][0]):
                        # an arity test, evaluated for a well-formed triple (three components)
                        val = sum(c * 3 for t, c in g[2][1][0]) + g[2][1][1]
                        return (val < 0) if g[1] == "<" else (val == 0)
                    for kk, val in ((1, ne1), (2, ne2)):
                        it = ("item", ("elem", tb, "triple"), ("c", kk))
                        if g == ("truthy", it):
                            return val
                        if g == ("empty", it) or g == ("empty", ("members", it)):
                            return not val
                    if g[0] in ("empty", "truthy") and isinstance(g[1], tuple) and g[1][:1] == ("list",):
                        # emptiness of a list assembled from the accepted / rejected positions of the triple
                        nonempty = False
                        for sg2 in g[1][1]:
                            if sg2[0] == "one":
                                nonempty = True
                            elif sg2[0] == "each" and sg2[3] == PTRUE and sg2[2][0] == "members" and sg2[2][1][:2] == ("item", ("elem", tb, "triple")) and sg2[2][1][2] in (("c", 1), ("c", 2)):
                                nonempty = nonempty or (ne1 if sg2[2][1][2] == ("c", 1) else ne2)
                            else:
                                raise AnalysisError(f"{ssite}: unrecognised summand guard {show_pred(g)[:160]}")
                        return (not nonempty) if g[0] == "empty" else nonempty
                    raise AnalysisError(f"{ssite}: unrecognised summand guard {show_pred(g)[:160]}")

                app = [sg for sg in eachs if ev(sg[3], sg[1])]
                ok1 = len(app) == 1
                rep.check(ok1, "REV.one-term", ssite, f"{name}, {shape} ({mode})", "every world triple contributes exactly one summand rank + Σ gamma+ of the accepted + Σ gamma- of the rejected conditionals",
                          extracted=f"{len(app)} summand(s)" + ("" if ok1 else ": " + " ; ".join(repr(sg[4])[:90] for sg in app)), required="1 summand", function=ssite)
                if not ok1:
                    continue
                tb = app[0][1]
                val = app[0][4]
                if not isinstance(val, LinV):
                    rep.violation("REV.one-term", ssite, f"{name} summand, {shape} ({mode})", "the summand is a linear term", extracted=repr(val)[:120], required="rank + sums", function=ssite)
                    continue
                terms, c0 = val.lin
                pos = {1: [], 2: []}
                other = []
                nrank = 0
                for t, cf in terms:
                    if isinstance(t, tuple) and t[0] == "bigsum" and isinstance(t[2], tuple) and t[2][0] == "members" and t[2][1][:2] == ("item", ("elem", tb, "triple")) and cf == 1:
                        which = t[2][1][2]
                        if which in (("c", 1), ("c", 2)):
                            pos[which[1]].append((t[1], t[3], t[4]))
                            continue
                    if t == ("int", ("item", ("elem", tb, "triple"), ("c", 0))) and cf == 1:
                        nrank += 1
                        continue
                    other.append(repr(t)[:80])
                rep.check(c0 == 0 and nrank == 1 and not other, "REV.triple-positions", ssite, f"{name} rank, {shape} ({mode})", "the prior rank of the world (position 0 of the triple) enters the summand once, nothing else besides the parameter sums",
                          extracted=f"rank x{nrank}, constant {c0}, other {other}"[:200], required="rank x1", function=ssite)
                for which, sign, nonempty in ((1, "+", ne1), (2, "-", ne2)):
                    if not nonempty:
                        continue  # a sum over an empty list is 0 whatever its body
                    for fp, fm in cases:
                        fixed = fp if sign == "+" else fm
                        env = {"FP": fp, "FM": fm}
                        total = ((), 0)
                        for jb, g, body in pos[which]:
                            if _eval_fix_guard(g, jb, env):
                                total = F.lin_add(total, _gen(body, jb))
                        got = _param_class(total)
                        want = spec_param(sign, fixed, Z)
                        who = "accepted" if which == 1 else "rejected"
                        if got == want:
                            rep.ok("REV.triple-positions" if not fixed else "REV.fixed-everywhere", ssite, f"{name}: gamma{sign} of {'a fixed' if fixed else 'a free'} {who} conditional, {shape} ({mode})",
                                   f"position {which} of the triple contributes {want}")
                        elif fixed:
                            how = WRONG_FREE if got == spec_param(sign, False, Z) else f"{got}"
                            rep.violation("REV.fixed-everywhere", ssite, f"gamma{sign} of a conditional with fixed gamma{sign} inside the minima sums: {how}",
                                          "a parameter that is fixed enters the minima sums with its fixed value, as it does in the acceptance constraint", extracted=f"{name}, {shape}, {mode}: {got}", required=want, function=ssite)
                        else:
                            rep.violation("REV.triple-positions", ssite, f"{name}: gamma{sign} of a free {who} conditional, {shape} ({mode})", f"position {which} of the triple ({who} conditionals) contributes gamma{sign}",
                                          extracted=got, required=want, function=ssite)
    rep.floor("translate_to_csp paths", n, 8)


def encoding(rep, ex: Explorer):
    """REV.relation [acceptance], C.minima-roles, C.empty-minimum on c_revision.encoding: per index i with a
    falsifying world: mv_i = min vSums[i], mf_i = min fSums[i], gamma-_i − gamma+_i > mv_i − mf_i; no constraint (and
    no minimum over nothing) for an index without falsifying world."""
    from .cinf import _name_prefix, _name_index

    qual = f"{MOD}.encoding"
    site = fn_label(ex.prog, qual)

    def sums(I, tag):
        b = I.fresh_var("n")
        return I.alloc(HDict(each=[("each", b, IDX, PTRUE, ElemV(b, "key"), ElemV((tag, b), "coll", "term"))]))

    def setup(I):
        b = I.fresh_var("n")
        gam = I.alloc(HDict(each=[("each", b, IDX, PTRUE, ElemV(b, "key"), TupleV((LinV(F.lin_term(("P", b)), "term"), LinV(F.lin_term(("M", b)), "term"))))]))
        return [gam, sums(I, "vsums"), sums(I, "fsums")], {}

    summ = dict(wrappers.SUMMARIES)

    def me_summary(I, fi, args, kwargs, node):
        I.log("minima_encoding", node, m=args[0], sums=args[1])
        return I.alloc(HList([("sym", ("minenc", desc(args[0]), desc(args[1])))]))

    summ["inference.c_inference.minima_encoding"] = me_summary
    paths = ex.run(qual, setup, summaries=summ, key="crev-encoding")
    n_rel = n_me = 0
    for p in paths:
        if p.outcome[0] != "return":
            rep.violation("REV.relation", site, "outcome", "encoding returns the constraint list", extracted=repr(p.outcome)[:100], required="return", function=site)
            continue
        from ..harness import early_exits
        for lev, case in early_exits(p, IDX):
            if case.sig[0] in ("break", "return"):
                g = " ∧ ".join(show_pred(k if v else ("not", k))[:60] for k, v in case.guard) or "always"
                rep.violation("REV.relation", f"{site}:{lev.node.lineno}", "every conditional", "every revision conditional with a falsifying world gets its acceptance constraint: the loop over the conditionals runs to its end",
                              extracted=f"the loop is left by {case.sig[0]} at a conditional with {g}: the conditionals after it get no constraint", required="skip that conditional only (continue)", function=site)
        kept = set()
        rv = view(p.state, p.outcome[1])
        for ev, Q in iter_events(p.events):
            if not Q:
                continue
            loop_ev, case = Q[-1]
            evar = loop_ev.evar
            g = dict(case.guard)
            ne = g.get(("empty", ("fsums", evar)))
            if ev.kind == "minima_encoding":
                n_me += 1
                sv = ev.sums
                where = f"{site}:{ev.node.lineno}"
                is_f = isinstance(sv, ElemV) and sv.var == ("fsums", evar)
                is_v = isinstance(sv, ElemV) and sv.var == ("vsums", evar)
                rep.check(is_f or is_v, "REV.relation", where, "sums of the same index", "the minima of index i range over the sums of index i", extracted=repr(sv), required="vSums[i] / fSums[i]", function=site)
                m = ev.m
                pre = [_name_prefix(t) for t, c in m.lin[0]] if isinstance(m, LinV) else []
                idx = [_name_index(t) for t, c in m.lin[0]] if isinstance(m, LinV) else []
                if is_f:
                    rep.check(ne is False, "C.empty-minimum", where, "falsifying minimum guarded", "the minimum over the falsifying sums is encoded only when some world falsifies the conditional (a minimum over nothing makes the system unsatisfiable)",
                              extracted=f"emptiness of fSums[i] {'excluded' if ne is False else 'not excluded'}", required="guarded by fSums[i] non-empty", function=site)
                    rep.check(pre == ["mf_"], "C.minima-roles", where, "mf over falsifying sums", "mf_i is the minimum over the falsifying sums of index i", extracted=repr(m), required="mf_i", function=site)
                elif is_v:
                    rep.check(pre == ["mv_"], "C.minima-roles", where, "mv over verifying sums", "mv_i is the minimum over the verifying sums of index i", extracted=repr(m), required="mv_i", function=site)
                if pre in (["mf_"], ["mv_"]):
                    rep.check(idx == [(("elem", evar, "key"),)], "KEY.no-positional", where, f"{pre[0]} index", "the minimum variable is named by the index of its conditional", extracted=repr(idx)[:100], required="index i", function=site)
            if ev.kind == "list.append" and isinstance(ev.value, FormulaV) and ev.value.f[0] == "rel":
                n_rel += 1
                f = ev.value.f
                terms = dict(f[1][0])
                mv = [t for t in terms if _name_prefix(t) == "mv_"]
                mf = [t for t in terms if _name_prefix(t) == "mf_"]
                ok = (f[2] == ">" and f[1][1] == 0 and len(terms) == 4 and terms.get(("M", evar)) == 1 and terms.get(("P", evar)) == -1
                      and len(mv) == 1 and len(mf) == 1 and terms[mv[0]] == -1 and terms[mf[0]] == 1)
                rep.check(ok, "REV.relation", f"{site}:{ev.node.lineno}", "acceptance constraint", "gamma-_i − gamma+_i > mv_i − mf_i: the revised ranking puts the best verifying world strictly below the best falsifying world",
                          extracted=F.show(f), required="gamma-_i − gamma+_i − mv_i + mf_i > 0", function=site)
                if mv and mf:
                    rep.check(_name_index(mv[0]) == _name_index(mf[0]) == (("elem", evar, "key"),), "KEY.no-positional", f"{site}:{ev.node.lineno}", "mv/mf index", "mv and mf of the constraint of index i carry index i",
                              extracted=f"{_name_index(mv[0])} / {_name_index(mf[0])}", required="i / i", function=site)
                rep.check(ne is False, "C.empty-minimum", f"{site}:{ev.node.lineno}", "constraint guarded", "the acceptance constraint is stated for indices with a falsifying world", extracted=f"fSums[i] empty: {ne}", required="non-empty", function=site)
        # the result: per index (with a falsifying world) both minimum encodings and the constraint; nothing unconditional
        if isinstance(rv, tuple) and rv[0] == "list":
            kinds = []
            for sg in rv[1]:
                if sg[0] in ("each", "each*") and sg[2] == IDX:
                    gd = sg[3]
                    kinds.append(show_pred(gd)[:80])
                else:
                    kinds.append("unconditional:" + repr(sg)[:60])
            bad = [k for k in kinds if k.startswith("unconditional")]
            have = set()
            for sg in rv[1]:
                if sg[0] in ("each", "each*") and sg[2] == IDX and sg[3] == ("not", ("empty", ("fsums", sg[1]))):
                    it = sg[4]
                    if isinstance(it, tuple) and it[:1] == ("sym",) and it[1][0] == "minenc":
                        nm = it[1][1]
                        fam = it[1][2]
                        have.add((nm[1][1][0] if nm[0] == "isym" else "?", fam[1][0] if isinstance(fam, tuple) and len(fam) > 1 and isinstance(fam[1], tuple) else "?"))
                    elif isinstance(it, FormulaV):
                        have.add("rel")
            want = {("mv_", "vsums"), ("mf_", "fsums"), "rel"}
            rep.check(have == want, "REV.relation", site, "result holds all three parts", "for an index with a falsifying world the result holds both minimum encodings and the acceptance constraint",
                      extracted=str(sorted(map(str, have))), required=str(sorted(map(str, want))), function=site)
            rep.check(not bad, "REV.relation", site, "result", "every constraint belongs to one index of the compilation", extracted="; ".join(bad)[:200] or "per-index items only", required="per-index items", function=site)
    rep.floor("c_revision.encoding acceptance constraints", n_rel, 1)
    rep.floor("c_revision.encoding minimum encodings", n_me, 2)


# ----------------------------------------------------------------------------------------------
# solving and the two entry points
# ----------------------------------------------------------------------------------------------
def solve(rep, ex: Explorer):
    """CHECK.three-way, MODEL.extract and the solver scope on solve_and_get_model / solve_pareto_front."""
    for fn in ("solve_and_get_model", "solve_pareto_front"):
        qual = f"{MOD}.{fn}"
        site = fn_label(ex.prog, qual)
        for which in ("vars", "novars"):
            def conv(I, fi, args, kwargs, node):
                I.log("convert", node, args=tuple(args))
                return I.alloc(HList([("sym", "Z3CSP")]))

            def setup(I, which=which, fn=fn):
                csp = I.alloc(HList([("sym", "CSP")]))
                mv = ElemV(("minvars",), "coll", "str") if which == "vars" else I.new_list([])
                if fn == "solve_pareto_front":
                    return [csp, mv], {"max_solutions": Sym("maxsol")}
                return [csp, mv], {}

            summ = dict(wrappers.SUMMARIES)
            summ[f"{MOD}._convert_csp_to_z3"] = conv
            paths = ex.run(qual, setup, summaries=summ, key=f"crev-{fn}-{which}")
            n = 0
            for p in paths:
                evs = list(iter_events(p.events))
                conv_ok = [ev for ev, Q in evs if ev.kind == "convert"]
                for ev, Q in evs:
                    if ev.kind == "query":
                        n += 1
                        where = f"{site}:{ev.node.lineno}"
                        items = flat(ev.frames)
                        rep.check(items == (("f", ("opaque", ("sym", "Z3CSP"))),) and conv_ok, "REV.entry", where, "solver scope", "the solver holds exactly the translated constraint system",
                                  extracted=show_items(items)[:200], required="the converted csp", function=site)
                        empty = decided(p, ("empty", ("minvars",)))
                        if which == "vars" and empty is False:
                            objs = ev.objectives
                            oko = ev.api == "z3.Optimize" and len(objs) == 1 and objs[0][0] == "each" and objs[0][2] == ("members", ("minvars",)) and objs[0][3] == PTRUE \
                                and objs[0][4] == ("minimize", ("isym", ("elem", objs[0][1], "str")))
                            rep.check(oko, "REV.entry", where, "objectives", "every requested variable is minimised", extracted=repr(objs)[:200], required="minimize(Int(v)) for every v", function=site)
                            pr = ev.options.get("priority")
                            rep.check(isinstance(pr, Const) and pr.value == "pareto", "REV.entry", where, "pareto priority", "the objectives are combined in the Pareto sense", extracted=repr(pr), required="priority='pareto'", function=site)
                        chk = decided(p, ("check", ev.qid))
                        models = [e for e, Q2 in evs if e.kind == "solver.model" and e.qid == ev.qid]
                        if chk == "sat":
                            rep.check(len(models) >= 1, "CHECK.three-way", where, "sat", "a model is read after the check answered sat", extracted=f"{len(models)} read(s)", required=">=1", function=site)
                        elif chk in ("unsat", "unknown"):
                            rep.check(not models, "CHECK.three-way", where, chk, "no model is read unless the check answered sat", extracted=f"{len(models)} read(s)", required="0", function=site)
                            if p.outcome[0] == "return":
                                rv = p.outcome[1]
                                if fn == "solve_and_get_model":
                                    okr = isinstance(rv, Const) and rv.value is None
                                else:
                                    vw = view(p.state, rv)
                                    okr = isinstance(vw, tuple) and vw[0] == "list" and not any(sg[0] == "one" for sg in vw[1])
                                rep.check(okr, "CHECK.three-way", site, f"result on {chk}", "without a model nothing is returned / added", extracted=repr(rv)[:100], required="None / no new solution", function=site)
                    if ev.kind == "as_long":
                        g = dict(Q[-1][1].guard) if Q else {}
                        okg = g.get(("z3kind", "intvalue", desc(ev.value))) is True
                        rep.check(okg, "MODEL.extract", f"{site}:{ev.node.lineno}", "integer values only", "as_long() is applied only to integer-valued constants of the model (the optimiser adds Boolean helpers)",
                                  extracted="guarded by is_int_value" if okg else "unguarded", required="is_int_value(m[d])", function=site)
                    if ev.kind == "dict.set" and Q and isinstance(ev.key, Sym) and isinstance(ev.key.label, tuple) and ev.key.label[:1] == ("declname",):
                        b = Q[-1][0].evar
                        okk = ev.key.label == ("declname", b) and isinstance(ev.value, Sym) and ev.value.label[:1] == ("as_long",) and ev.value.label[1][:1] == ("modelval",) and ev.value.label[1][2] == ("elem", b, "decl")
                        rep.check(okk, "MODEL.extract", f"{site}:{ev.node.lineno}", "name/value pairing", "each constant's name is paired with its own value", extracted=f"{ev.key!r}: {ev.value!r}"[:160], required="d.name(): m[d]", function=site)
                if p.outcome[0] == "return" and fn == "solve_and_get_model":
                    chks = [v for k, v in p.decisions if k[0] == "check"]
                    if chks and chks[-1] == "sat":
                        rv = p.outcome[1]
                        okd = isinstance(rv, Ref) and isinstance(p.state.heap.get(rv.oid), HDict)
                        rep.check(okd, "REV.entry", site, "result on sat", "a satisfiable system yields the model's values", extracted=repr(rv)[:80], required="a mapping", function=site)
                if p.outcome[0] == "raise":
                    rep.violation("REV.entry", site, "outcome", "solving never raises", extracted=repr(p.outcome[1])[:100], required="return", function=site)
            rep.floor(f"solver checks in {fn} ({which})", n, 1)


def front_enumeration(rep, ex: Explorer):
    """FRONT.enumeration on solve_pareto_front, decided by running its loop iteration by iteration (bounded) against what
    z3's Optimize does under priority='pareto' (external model, see DESIGN 10.2): with two or more objectives successive
    check() calls answer sat once per point of the front, each time with a new model, and then unsat; with a single
    objective z3 does not enumerate at all - every check() answers sat with the same optimum.  Required for every such
    behaviour: the call returns (the enumeration terminates), and the result holds exactly the reported points - each once,
    each a mapping of its own, in the order reported; with a cap, the first max_solutions of them."""
    qual = f"{MOD}.solve_pareto_front"
    site = fn_label(ex.prog, qual)
    LIMIT = 5
    n = 0
    for nvars in (1, 2, 3):
        VARS = ["x", "y", "z"][:nvars]
        for cap in (None, 1, 2):
            def conv(I, fi, args, kwargs, node):
                return I.alloc(HList([("sym", "Z3CSP")]))

            def intvals(I, fi, args, kwargs, node, nvars=nvars, VARS=VARS):
                m = args[0]
                if not (isinstance(m, ElemV) and m.role == "model"):
                    raise AnalysisError(f"{site}: values are read from {m!r}, not from the optimiser's model")
                tag = m.var[1] if nvars > 1 else "the optimum"   # one objective: the same model every time
                I.log("front.point", node, tag=tag)
                return I.alloc(HDict(entries={v: Sym(("val", tag, v), "int") for v in VARS}))

            def setup(I, VARS=VARS, cap=cap):
                return [I.alloc(HList([("sym", "CSP")])), I.alloc(HList([("one", Const(v)) for v in VARS]))], {"max_solutions": Const(cap)}

            summ = dict(wrappers.SUMMARIES)
            summ[f"{MOD}._convert_csp_to_z3"] = conv
            summ[f"{MOD}._int_values"] = intvals
            paths = ex.run(qual, setup, summaries=summ, key=f"front-enum-{nvars}-{cap}", unroll_while=LIMIT)
            for p in paths:
                chks = [v for k, v in p.decisions if k[0] == "check"]
                other = [(k, v) for k, v in p.decisions if k[0] != "check"]
                infeasible = False
                for k, v in other:
                    if k[0] == "in" and "'val'" in repr(k[1]):
                        # "was this point reported before?" for a point that was not: the points of a front are pairwise
                        # different (a repeated one has the same descriptor and is decided without a question)
                        infeasible = infeasible or v is True
                        continue
                    raise AnalysisError(f"{site}: the enumeration depends on {show_pred(k)[:100]}")
                if infeasible:
                    continue
                if "unknown" in chks:
                    continue  # the optimiser gave up: CHECK.three-way decides what happens then
                if nvars == 1 and "unsat" in chks[1:]:
                    continue  # not a behaviour of z3 with one objective (sat once is sat always)
                n_sat = chks.count("sat")
                slot = f"{nvars} objective(s), cap {cap}, optimiser answers {' '.join(chks) or '-'}" + (" ... (sat for ever)" if nvars == 1 and chks and "unsat" not in chks else "")
                if p.outcome[0] == "unroll-limit":
                    if nvars == 1:
                        n += 1
                        rep.violation("FRONT.enumeration", site, f"termination ({nvars} objective, cap {cap})", "enumerating the front terminates: with a single objective z3 answers sat with the same optimum at every check(), so the loop must not wait for unsat",
                                      extracted=f"still enumerating after {LIMIT} identical optima", required="stop at a repeated optimum / do not enumerate a single objective", function=site)
                    continue  # a front with more points than the bound: not judged here
                if p.outcome[0] != "return":
                    n += 1
                    rep.violation("FRONT.enumeration", site, slot, "the enumeration returns the front", extracted=f"{p.outcome[0]} {p.outcome[1]!r}"[:100], required="return", function=site)
                    continue
                rv = p.outcome[1]
                lst = p.state.heap.get(rv.oid) if isinstance(rv, Ref) else None
                if not (isinstance(lst, HList) and all(sg[0] == "one" for sg in lst.segs)):
                    raise AnalysisError(f"{site}: the result is not a list of solutions: {view(p.state, rv)!r}"[:200])
                tags = [ev.tag for ev, Q in iter_events(p.events) if ev.kind == "front.point"]
                reported = []
                for t in tags:
                    if t not in reported:
                        reported.append(t)
                want_n = len(reported) if nvars > 1 else min(1, n_sat)
                if cap is not None and cap >= 1:
                    want_n = min(want_n, cap)
                got = []
                oids = []
                for sg in lst.segs:
                    d = p.state.heap.get(sg[1].oid) if isinstance(sg[1], Ref) else None
                    if isinstance(d, HDict) and not d.each:
                        oids.append(sg[1].oid)
                        vals = {v.label[1] for v in d.entries.values() if isinstance(v, Sym) and isinstance(v.label, tuple) and v.label[:1] == ("val",)}
                        got.append(next(iter(vals)) if len(vals) == 1 else ("mixed", tuple(sorted(map(repr, vals)))))
                    else:
                        got.append(("?", repr(sg[1])[:40]))
                n += 1
                ok = got == reported[:want_n] and len(set(oids)) == len(oids)
                rep.check(ok, "FRONT.enumeration", site, slot, "the result holds exactly the points the optimiser reported - each once, each a mapping of its own, in order (with a cap: the first max_solutions)",
                          extracted=f"{len(got)} solution(s): {got}" + ("" if len(set(oids)) == len(oids) else " (one mapping recorded several times)"), required=f"{reported[:want_n]}", function=site)
    rep.floor("front enumeration behaviours evaluated", n, 12)


def _bind(ex, qual, args, kwargs, skip_self=False):
    fi = ex.prog.function(qual)
    a = fi.node.args
    names = [x.arg for x in a.posonlyargs + a.args]
    if skip_self:
        names = names[1:]
    out = dict(zip(names, args))
    out.update(kwargs)
    return out


# ----------------------------------------------------------------------------------------------
def front_wiring(rep, ex: Explorer):
    """FRONT.wiring on c_inference_pareto_front: the front is enumerated over the constraint system of *this* base
    (c-inference state, preprocessed before the constraints are read), minimising exactly the impact of every
    conditional, and every returned vector reads, position by position, the impact of that conditional from one solution."""
    from ..harness import make_belief_base, KEYS_D

    qual = "inference.c_revision.c_inference_pareto_front"
    site = fn_label(ex.prog, qual)
    SOL = ("members", ("solutions",))
    held = {}

    def ces(I, fi, args, kwargs, node):
        I.log("front.state", node, args=tuple(args), kwargs=dict(kwargs))
        return Sym(("ES",))

    def cinf(I, fi, args, kwargs, node):
        I.log("front.operator", node, args=tuple(args))
        return I.alloc(HObj("inference.c_inference.CInference", {"epistemic_state": args[0] if args else Const(None), "base_csp": Sym(("unprocessed",))}))

    def pre(I, fi, args, kwargs, node):
        I.log("front.preprocess", node, args=tuple(args))
        I.deref(args[0]).attrs["base_csp"] = Sym(("BASECSP",))
        return Const(None)

    def spf(I, fi, args, kwargs, node):
        I.log("front.solve", node, args=tuple(args), kwargs=dict(kwargs), views=tuple(view(I.state, a) for a in args))
        b = I.fresh_var("sol")
        return I.alloc(HList([("each", b, SOL, PTRUE, ElemV(b, "optional", "dict"))]))

    summ = {"inference.inference_manager.create_epistemic_state": ces, "inference.c_inference.CInference": cinf,
            "inference.inference.Inference.preprocess_belief_base": pre, "inference.c_revision.solve_pareto_front": spf}

    def setup(I):
        bb = make_belief_base(I)
        held["bb"] = bb
        return [bb], {"max_solutions": Sym("maxsol")}

    paths = ex.run(qual, setup, summaries=summ, key="front-wiring")
    n = 0
    for p in paths:
        if p.outcome[0] != "return":
            rep.violation("FRONT.wiring", site, "outcome", "the enumeration of the front returns a list for every base", extracted=f"{p.outcome[0]} {p.outcome[1]!r}"[:100], required="return", function=site)
            continue
        n += 1
        evs = [ev for ev, Q in iter_events(p.events)]
        st = [e for e in evs if e.kind == "front.state"]
        op = [e for e in evs if e.kind == "front.operator"]
        so = [e for e in evs if e.kind == "front.solve"]
        sb = {}
        if len(st) == 1:
            cfi = ex.prog.functions.get("inference.inference_manager.create_epistemic_state")
            cparams = [a.arg for a in cfi.node.args.args] if cfi is not None else []
            sb = {cparams[i]: v for i, v in enumerate(st[0].args) if i < len(cparams)}
            sb.update(st[0].kwargs)
        wk = sb.get("weakly", Const(False))
        oks = len(st) == 1 and sb.get("belief_base") == held["bb"] and sb.get("inference_system") == Const("c-inference") and wk == Const(False)
        rep.check(oks, "FRONT.wiring", site, "state", "the constraint system is that of c-inference over the given base (strict mode)",
                  extracted=f"base={sb.get('belief_base')!r}, system={sb.get('inference_system')!r}, weakly={wk!r}" if st else "none", required="(base, 'c-inference'), weakly=False", function=site)
        oko = len(op) == 1 and op[0].args[:1] == (Sym(("ES",)),)
        rep.check(oko, "FRONT.wiring", site, "operator", "the operator is built on that state", extracted=repr(op[0].args) if op else "none", required="CInference(state)", function=site)
        if len(so) != 1:
            rep.violation("FRONT.wiring", site, "enumeration", "the front is produced by one call of the verified enumeration", extracted=f"{len(so)} calls", required="1", function=site)
            continue
        a, kw, vw = so[0].args, so[0].kwargs, so[0].views
        rep.check(len(a) >= 1 and a[0] == Sym(("BASECSP",)), "FRONT.wiring", f"{site}:{so[0].node.lineno}", "constraints", "the constraints handed to the enumeration are the base constraints after preprocessing",
                  extracted=repr(a[0]) if a else "none", required="base_csp of the preprocessed operator", function=site)
        mv = vw[1] if len(vw) > 1 else None
        okm = False
        if isinstance(mv, tuple) and mv[0] == "list" and len(mv[1]) == 1 and mv[1][0][0] == "each":
            _, b, fam, g, item = mv[1][0]
            okm = fam == KEYS_D and g == PTRUE and desc(item) == ("name", ("eta_", ("elem", b, "key")))
        rep.check(okm, "FRONT.wiring", f"{site}:{so[0].node.lineno}", "objectives", "exactly the impacts eta_i of all conditionals of the base are minimised", extracted=repr(mv)[:160], required="eta_i for every key i", function=site)
        ms = kw.get("max_solutions", a[2] if len(a) > 2 else None)
        rep.check(ms in (Sym("maxsol"), None, Const(None)), "FRONT.wiring", f"{site}:{so[0].node.lineno}", "cap", "no cap on the number of solutions other than the caller's is applied", extracted=repr(ms), required="max_solutions (or none)", function=site)
        rv = view(p.state, p.outcome[1])
        okr = False
        if isinstance(rv, tuple) and rv[0] == "list" and len(rv[1]) == 1 and rv[1][0][0] == "each":
            _, sb, fam, g, inner = rv[1][0]
            if fam == SOL and g == PTRUE and isinstance(inner, tuple) and inner[0] in ("list", "tuple") and len(inner[1]) == 1 and inner[1][0][0] == "each":
                _, kb, fam2, g2, cell = inner[1][0]
                want = ("mcall", ("elem", sb, "optional"), "get", (("name", ("eta_", ("elem", kb, "key"))), ("c", 0)))
                okr = fam2 == KEYS_D and g2 == PTRUE and tuple(desc(cell)[:4]) == want
            elif fam == SOL and g == PTRUE and isinstance(inner, tuple) and inner[0] in ("list", "tuple") and len(inner[1]) == 2 and all(x[0] == "each" for x in inner[1]):
                # the same entry written as a test: sol[eta_i] if eta_i in sol else 0
                (_, k1, f1, g1, c1), (_, k2, f2, g2, c2) = inner[1]
                nm = lambda kb: ("name", ("eta_", ("elem", kb, "key")))  # noqa: E731
                has = lambda kb: ("in", nm(kb), sb)  # noqa: E731
                cells = {}
                for kb, f_, g_, c_ in ((k1, f1, g1, c1), (k2, f2, g2, c2)):
                    if f_ != KEYS_D:
                        cells = None
                        break
                    if g_ == has(kb):
                        cells["in"] = desc(c_) == ("item", ("elem", sb, "optional"), nm(kb))
                    elif g_ == ("not", has(kb)):
                        cells["out"] = c_ == Const(0)
                okr = cells is not None and cells.get("in") is True and cells.get("out") is True
        rep.check(okr, "FRONT.wiring", site, "vectors", "one vector per solution; its entry for conditional i is that solution's value of eta_i (0 when the optimiser left it out)",
                  extracted=repr(rv)[:900], required="[ (sol.get(eta_i, 0) for every key i) for every solution ]", function=site)
    rep.floor("front enumeration paths", n, 1)
    return {"front_paths": n}


def entry(rep, ex: Explorer):
    """REV.entry on c_revision / c_revision_pareto_front: which compilation is used, argument wiring into the translation
    (directly or through the incremental model), the variables minimised, the values patched into the result."""
    REVS = ("members", ("revs",))
    for fn in ("c_revision", "c_revision_pareto_front"):
        qual = f"{MOD}.{fn}"
        site = fn_label(ex.prog, qual)
        for with_model in (False, True):
            refs = {}

            def mk(name, ret):
                def h(I, fi, args, kwargs, node):
                    I.log("call." + name, node, args=tuple(args), kwargs=dict(kwargs), qual=fi.qualname if fi else name)
                    return ret(I)
                return h

            def solve_s(I, fi, args, kwargs, node):
                I.log("call.solve", node, args=tuple(args), kwargs=dict(kwargs), mv=view(I.state, args[1]) if len(args) > 1 else None)
                if I.ctx.decide(("solved",)):
                    d = HDict()
                    d.sym = ("model",)
                    return I.alloc(d)
                return Const(None)

            def front_s(I, fi, args, kwargs, node):
                I.log("call.solve", node, args=tuple(args), kwargs=dict(kwargs), mv=view(I.state, args[1]) if len(args) > 1 else None)
                if I.ctx.decide(("solved",)):
                    d = HDict()
                    d.sym = ("model",)
                    return I.new_list([I.alloc(d)])
                return I.new_list([])

            def setup(I, with_model=with_model):
                b = I.fresh_var("c")
                revs = I.alloc(HList([("each", b, REVS, PTRUE, ElemV(b, "cond"))]))
                I.index_is_key = True  # revision conditionals are identified by their `index`: it is the element's key here
                rf = preocf._obj(I)
                model = I.alloc(HObj(CM, {})) if with_model else Const(None)
                refs["rf"], refs["revs"], refs["model"] = rf, revs, model
                return [rf, revs], {"gamma_plus_zero": Sym("gpz", "bool"), "fixed_gamma_minus": ElemV(FMD, "optional", "dict"),
                                    "fixed_gamma_plus": ElemV(FPD, "optional", "dict"), "model": model}

            summ = dict(wrappers.SUMMARIES)
            for c in ("compile_alt_fast", "compile_alt", "compile"):
                summ[f"{MOD}.{c}"] = mk("compile", lambda I: Sym("COMPILATION"))
            summ[f"{MOD}.translate_to_csp"] = mk("translate", lambda I: I.alloc(HList([("sym", "CSP")])))
            summ[f"{CM}.to_csp"] = mk("to_csp", lambda I: I.alloc(HList([("sym", "CSP")])))
            summ[f"{MOD}.solve_and_get_model"] = solve_s
            summ[f"{MOD}.solve_pareto_front"] = front_s
            paths = ex.run(qual, setup, summaries=summ, key=f"crev-{fn}-{with_model}")
            n = 0
            tag = "incremental model" if with_model else "fresh compilation"
            for p in paths:
                if p.outcome[0] != "return":
                    rep.violation("REV.entry", site, f"outcome ({tag})", "c-revision never raises", extracted=repr(p.outcome[1])[:100], required="return", function=site)
                    continue
                n += 1
                nFP, nFM, Z = decided(p, ("isnone", FPD)), decided(p, ("isnone", FMD)), decided(p, ("truthy", "gpz"))
                calls = {}
                for ev, Q in iter_events(p.events):
                    if ev.kind.startswith("call."):
                        calls.setdefault(ev.kind[5:], []).append(ev)
                gpz, fpv, fmv = Sym("gpz", "bool"), ElemV(FPD, "optional", "dict"), ElemV(FMD, "optional", "dict")
                if not with_model:
                    cc = calls.get("compile", [])
                    okc = len(cc) == 1 and cc[0].qual in (f"{MOD}.compile_alt_fast", f"{MOD}.compile_alt") and tuple(cc[0].args) == (refs["rf"], refs["revs"]) and "to_csp" not in calls
                    rep.check(okc, "REV.entry", site, f"compilation ({tag})", "the constraint system is compiled from the given ranking and conditionals by the fast or the reference compilation (REV.classify)",
                              extracted=f"{[c.qual for c in cc]} args {[tuple(map(repr, c.args)) for c in cc]}"[:200], required="compile_alt_fast(ranking_function, revision_conditionals)", function=site)
                    tc = calls.get("translate", [])
                    okt = len(tc) == 1
                    if okt:
                        bd = _bind(ex, f"{MOD}.translate_to_csp", tc[0].args, tc[0].kwargs)
                        okt = bd.get("compilation") == Sym("COMPILATION") and bd.get("gamma_plus_zero") == gpz and bd.get("fixed_gamma_plus") == fpv and bd.get("fixed_gamma_minus") == fmv
                    rep.check(okt, "REV.entry", site, f"translation arguments ({tag})", "gamma_plus_zero and both fixed-value maps reach the translation under their own names", extracted=repr([(t.args, t.kwargs) for t in tc])[:240], required="(compilation, gamma_plus_zero, fixed+, fixed-)", function=site)
                else:
                    tc = calls.get("to_csp", [])
                    okt = len(tc) == 1 and "compile" not in calls
                    if okt:
                        bd = _bind(ex, f"{CM}.to_csp", tc[0].args, tc[0].kwargs)
                        okt = bd.get("self") == refs["model"] and bd.get("gamma_plus_zero") == gpz and bd.get("fixed_gamma_plus") == fpv and bd.get("fixed_gamma_minus") == fmv
                    rep.check(okt, "REV.entry", site, f"translation arguments ({tag})", "with a model the constraint system comes from model.to_csp with the same three settings", extracted=repr([(t.args, t.kwargs) for t in tc])[:240], required="model.to_csp(gamma_plus_zero, fixed+, fixed-)", function=site)
                sc = calls.get("solve", [])
                if len(sc) != 1:
                    rep.violation("REV.entry", site, f"solve ({tag})", "the system is solved once", extracted=f"{len(sc)} call(s)", required="1", function=site)
                    continue
                csp_arg = view(p.state, sc[0].args[0]) if sc[0].args else None
                rep.check(csp_arg == ("list", (("sym", "CSP"),)), "REV.entry", site, f"solved system ({tag})", "the translated constraint system is what is solved", extracted=repr(csp_arg)[:120], required="csp", function=site)
                mv = sc[0].mv
                okm = False
                if isinstance(mv, tuple) and mv[0] == "list" and len(mv[1]) == 1 and mv[1][0][0] == "each":
                    _, b, fam, g, val = mv[1][0]
                    want_g = PTRUE if nFM else ("not", ("in", ("elem", b, "key"), FMD))
                    from ..absvals import NameV
                    okm = fam == REVS and g == want_g and desc(val) == ("name", ("gamma-_", ("elem", b, "key")))
                rep.check(okm, "REV.entry", site, f"minimised variables ({tag}; fixed- {'absent' if nFM else 'given'})", "exactly the gamma- of the conditionals without fixed gamma- are minimised, named by the conditional's index",
                          extracted=repr(mv)[:240], required="[gamma-_<index> for conditionals not in fixed-]", function=site)
                solved = decided(p, ("solved",))
                rv = p.outcome[1]
                if fn == "c_revision":
                    if solved is False:
                        rep.check(isinstance(rv, Const) and rv.value is None, "REV.entry", site, f"no model ({tag})", "nothing is returned exactly when the solver found no parameters", extracted=repr(rv)[:80], required="None", function=site)
                        continue
                    d = p.state.heap.get(rv.oid) if isinstance(rv, Ref) else None
                else:
                    vw = view(p.state, rv)
                    if solved is False:
                        rep.check(vw == ("list", ()), "REV.entry", site, f"no model ({tag})", "an infeasible system yields the empty front", extracted=repr(vw)[:80], required="[]", function=site)
                        continue
                    o = p.state.heap.get(rv.oid) if isinstance(rv, Ref) else None
                    d = None
                    if isinstance(o, HList) and len(o.segs) == 1 and o.segs[0][0] == "one" and isinstance(o.segs[0][1], Ref):
                        d = p.state.heap.get(o.segs[0][1].oid)
                if not isinstance(d, HDict) or d.sym != ("model",):
                    rep.violation("REV.entry", site, f"result ({tag})", "the solver's parameters are returned", extracted=repr(rv)[:80], required="the model mapping", function=site)
                    continue
                # patched entries
                got = set()
                for e in d.each:
                    _, b, fam, g, kt, vt = e
                    kd, vd = _gen(_gen(desc(kt), b), b), desc(vt)
                    fam_d = fam
                    got.add((repr(fam_d)[:120], show_pred(g)[:160], repr(desc(kt))[:120], repr(vd)[:120]))
                def items_of(dd):
                    return [e for e in d.each if e[2][0] == "members" and isinstance(e[2][1], tuple) and e[2][1][:3] == ("mcall", ("elem", dd, "optional"), "items")]
                for dd, sign, absent in ((FMD, "-", nFM), (FPD, "+", nFP)):
                    es = items_of(dd)
                    if absent:
                        rep.check(not es, "REV.entry", site, f"fixed gamma{sign} absent ({tag}, gamma_plus_zero={Z})", "nothing is patched without fixed values", extracted=f"{len(es)}", required="0", function=site)
                        continue
                    okp = len(es) == 1
                    if okp:
                        _, b, fam, g, kt, vt = es[0]
                        okp = g == PTRUE and desc(kt) == ("name", (f"gamma{sign}_", ("elem", ("part", b, 0), "plain"))) and desc(vt) == ("int", ("elem", ("part", b, 1), "plain"))
                    rep.check(okp, "REV.entry", site, f"fixed gamma{sign} in the result ({tag}, gamma_plus_zero={Z})", f"every fixed gamma{sign}_i appears in the returned parameters with its fixed value",
                              extracted=repr([(desc(e[4]), desc(e[5])) for e in es])[:200], required=f"gamma{sign}_i = fixed[i]", function=site)
                zs = [e for e in d.each if e[2] == REVS]
                if Z:
                    okz = len(zs) == 1
                    if okz:
                        _, b, fam, g, kt, vt = zs[0]
                        okz = desc(kt) == ("name", ("gamma+_", ("elem", b, "key"))) and vt == Const(0)
                        # only where the solver reported nothing and nothing is fixed
                        absent = ("not", ("in", ("name", ("gamma+_", ("elem", b, "key"))), ("dict", rv.oid if fn == "c_revision" else o.segs[0][1].oid)))
                        want_g = absent if nFP else ("and", (absent, ("not", ("in", ("elem", b, "key"), FPD))))
                        def conj(x):
                            if isinstance(x, tuple) and x and x[0] == "and":
                                out = set()
                                for y in x[1]:
                                    out |= conj(y)
                                return out
                            return set() if x == PTRUE else {x}
                        okz = okz and conj(g) == conj(want_g)  # the same conjuncts, in whatever order they were tested
                    rep.check(okz, "REV.entry", site, f"gamma+ zero in the result ({tag}; fixed+ {'absent' if nFP else 'given'})", "with gamma_plus_zero the returned gamma+ of the unfixed conditionals are 0",
                              extracted=repr([(desc(e[4]), e[5]) for e in zs])[:200], required="gamma+_i = 0", function=site)
                else:
                    rep.check(not zs, "REV.entry", site, f"no defaults ({tag}; fixed+ {'absent' if nFP else 'given'})", "without gamma_plus_zero no parameter is overwritten", extracted=f"{len(zs)}", required="0", function=site)
            rep.floor(f"{fn} paths ({tag})", n, 9)


def to_csp(rep, ex: Explorer):
    """REV.entry on CRevisionModel.to_csp: the model's own compilation and the three settings reach translate_to_csp."""
    qual = f"{CM}.to_csp"
    site = fn_label(ex.prog, qual)
    refs = {}

    def tcomp(I, fi, args, kwargs, node):
        I.log("call.to_compilation", node, args=tuple(args))
        return Sym("MCOMPILATION")

    def trans(I, fi, args, kwargs, node):
        I.log("call.translate", node, args=tuple(args), kwargs=dict(kwargs))
        return I.alloc(HList([("sym", "CSP")]))

    def setup(I):
        m = I.alloc(HObj(CM, {}))
        refs["m"] = m
        return [m], {"gamma_plus_zero": Sym("gpz", "bool"), "fixed_gamma_plus": ElemV(FPD, "optional", "dict"), "fixed_gamma_minus": ElemV(FMD, "optional", "dict")}

    summ = dict(wrappers.SUMMARIES)
    summ[f"{CM}.to_compilation"] = tcomp
    summ[f"{MOD}.translate_to_csp"] = trans
    paths = ex.run(qual, setup, summaries=summ, key="crev-to_csp")
    n = 0
    for p in paths:
        if p.outcome[0] != "return":
            rep.violation("REV.entry", site, "outcome", "to_csp returns", extracted=repr(p.outcome)[:100], required="return", function=site)
            continue
        n += 1
        tc = [ev for ev, Q in iter_events(p.events) if ev.kind == "call.translate"]
        cc = [ev for ev, Q in iter_events(p.events) if ev.kind == "call.to_compilation"]
        ok = len(tc) == 1 and len(cc) == 1 and tuple(cc[0].args) == (refs["m"],)
        if ok:
            bd = _bind(ex, f"{MOD}.translate_to_csp", tc[0].args, tc[0].kwargs)
            ok = bd.get("compilation") == Sym("MCOMPILATION") and bd.get("gamma_plus_zero") == Sym("gpz", "bool") and bd.get("fixed_gamma_plus") == ElemV(FPD, "optional", "dict") and bd.get("fixed_gamma_minus") == ElemV(FMD, "optional", "dict")
        rep.check(ok, "REV.entry", site, "translation arguments", "the model's current compilation and the three settings reach translate_to_csp under their own names", extracted=repr([(t.args, t.kwargs) for t in tc])[:240],
                  required="translate_to_csp(self.to_compilation(), gamma_plus_zero, fixed+, fixed-)", function=site)
        vw = view(p.state, p.outcome[1])
        rep.check(vw == ("list", (("sym", "CSP"),)), "REV.entry", site, "result", "the translated system is returned", extracted=repr(vw)[:100], required="csp", function=site)
    rep.floor("to_csp paths", n, 1)


def check_all(rep, ex: Explorer, tier="quick"):
    wsat_meaning(rep, ex)
    mask_literal(rep, ex, MOD)
    mask_literal(rep, ex, MMOD)
    classify(rep, ex, "compile_alt")
    classify(rep, ex, "compile_alt_fast")
    if tier == "thorough":
        # (the sequence that files a third conditional under a used number has one literal-mask decision more: on two
        #  worlds its paths exceed the engine's bound; it is judged on one world in both tiers)
        alias = tuple(k for k, v in SEQUENCES.items() if 3 in v[2])
        model_sequences(rep, ex, nworlds=2, only=tuple(k for k in SEQUENCES if k not in alias))
        model_sequences(rep, ex, nworlds=1, only=alias)
    else:
        two = ("fresh [c1,c2]", "[c1,c2] - remove 2")
        model_sequences(rep, ex, nworlds=2, only=two)
        model_sequences(rep, ex, nworlds=1, only=tuple(k for k in SEQUENCES if k not in two))
    translate(rep, ex)
    encoding(rep, ex)
    solve(rep, ex)
    entry(rep, ex)
    to_csp(rep, ex)
