"""c-revision (C19): REV.classify, REV.triple-positions, MASK.literal, REV.incremental, REV.one-term,
REV.fixed-everywhere, REV.relation, C.empty-minimum, CHECK.three-way, MODEL.extract, REV.entry.

Instantiation used for the three compilations: two concrete revision conditionals c1, c2 (indices 1, 2; their
antecedents / consequents are the uninterpreted atoms A(c_k), B(c_k)) and either the generic family of worlds
(reference and fast compilation) or two concrete worlds w1, w2 (incremental model, whose per-world caches need
concrete owners).  The classification tests of a world are uninterpreted predicates; every rule is evaluated
under every assignment of them."""
from __future__ import annotations

import itertools

from .. import formula as F
from ..absint import iter_events, Interp, RaiseSig
from ..absvals import (Const, Sym, PredV, FormulaV, LinV, Ref, ElemV, TupleV, HObj, HDict, HList, HSolver, HOpaque, PTRUE,
                       desc, show_pred)
from ..front import AnalysisError
from ..harness import (Explorer, A, B, verification, falsification, fn_label, decided, view, canon_items, flat, show_items,
                       COND_CLASS, returned_bool, KEYS_D)
from . import wrappers, preocf

MOD = "inference.c_revision"
MMOD = "inference.c_revision_model"
CM = MMOD + ".CRevisionModel"
WORLDS = preocf.WORLDS
GW = ("var", "_w")


def X(k):
    return ("obj", f"c{k}")


def WV(n):
    return ElemV(("obj", f"w{n}"), "key")


VER = {k: F.canon(verification(X(k))) for k in (1, 2, 3)}
FAL = {k: F.canon(falsification(X(k))) for k in (1, 2, 3)}


# ----------------------------------------------------------------------------------------------
# summaries
# ----------------------------------------------------------------------------------------------
def wsc_summary(I, fi, args, kwargs, node):
    """world_satisfies_conditionalization(world, φ): SAT(world literals ∧ φ) - established by REV.classify
    [satisfaction test] below; here an uninterpreted predicate of (world, φ)."""
    f = args[2]
    I.log("wsat", node, world=args[1], formula=f)
    return PredV(("wsat", desc(args[1]), F.canon(f.f) if isinstance(f, FormulaV) else desc(f)))


def masks_summary(I, fi, args, kwargs, node):
    """_extract_cond_masks(cond, sig_index): None, or the literal description (a_idx, a_val, c_idx, c_val) - established
    by MASK.literal; here four opaque integers per conditional."""
    o = I.deref(args[0])
    k = o.attrs["index"].value
    I.log("masks", node, cond=k, sig=args[1])
    if I.ctx.decide(("masknone", k)):
        return Const(None)
    return TupleV((Sym(("aidx", k), "int"), Sym(("aval", k), "int"), Sym(("cidx", k), "int"), Sym(("cval", k), "int")))


def _summ(extra=None):
    s = preocf._summ({"inference.preocf.PreOCF.world_satisfies_conditionalization": wsc_summary,
                      MOD + "._extract_cond_masks": masks_summary, MMOD + "._extract_cond_masks": masks_summary})
    if extra:
        s.update(extra)
    return s


def mkcond(I, k):
    return I.alloc(HObj(COND_CLASS, {"antecedence": FormulaV(A(X(k)), "pysmt"), "consequence": FormulaV(B(X(k)), "pysmt"),
                                     "index": Const(k), "textRepresentation": Const(f"c{k}"), "weak": Const(False)}))


def mkrf_concrete(I, nworlds):
    d = HDict()
    d.symkeys = {}
    for n in range(1, nworlds + 1):
        w = WV(n)
        d.entries[("d", desc(w))] = Sym(("storedrank", n), "optint")
        d.symkeys[("d", desc(w))] = w
    return I.alloc(HObj(preocf.CUS, {"ranks": I.alloc(d), "signature": ElemV(preocf.SIG, "coll", "str"), "conditionals": Const(None)}))


# ----------------------------------------------------------------------------------------------
# classification atoms
# ----------------------------------------------------------------------------------------------
def _wnorm(wd, binder):
    if binder is not None and wd == ("elem", binder, "key"):
        return "w"
    if isinstance(wd, tuple) and len(wd) == 3 and wd[0] == "elem" and isinstance(wd[1], tuple) and wd[1][:1] == ("obj",):
        return wd[1][1]
    return None


def atom_of(p, binder=None):
    """('v'|'f'|'la'|'lc', world, k) for a classification test, else None."""
    if p[0] == "wsat":
        w = _wnorm(p[1], binder)
        for k in (1, 2, 3):
            if p[2] == VER[k]:
                return ("v", w, k)
            if p[2] == FAL[k]:
                return ("f", w, k)
        return None
    if p[0] == "cmp" and p[1] == "==" and isinstance(p[2], tuple) and p[2][:1] == ("lin",) and p[3] == ("c", 0):
        terms, c = p[2][1]
        if c != 0 or len(terms) != 2:
            return None
        t = dict(terms)
        for k in (1, 2, 3):
            for what, idx, val in (("la", ("aidx", k), ("aval", k)), ("lc", ("cidx", k), ("cval", k))):
                if val in t and abs(t[val]) == 1:
                    other = [x for x in t if x != val]
                    if len(other) == 1 and t[other[0]] == -t[val]:
                        o = other[0]
                        # int(bits(world)[idx])
                        if isinstance(o, tuple) and o[0] == "int" and isinstance(o[1], tuple) and o[1][0] == "elem" and isinstance(o[1][1], tuple) and o[1][1][0] == "at":
                            at = o[1][1]
                            if at[2] == ("lin", (((idx, 1),), 0)):
                                w = _wnorm(at[1], binder)
                                return (what, w, k)
                            if isinstance(at[2], tuple) and at[2][0] == "lin" and len(at[2][1][0]) == 1 and at[2][1][0][0][0][0] in ("aidx", "cidx"):
                                raise MixedTest(f"bit at {at[2][1][0][0][0]} compared with {val}")
        return None
    return None


class MixedTest(Exception):
    """A bit test that pairs the position of one literal with the polarity of another."""


def eval_guard(p, env, binder=None):
    k = p[0]
    if k == "const":
        return p[1]
    if k == "not":
        return not eval_guard(p[1], env, binder)
    if k == "and":
        return all(eval_guard(q, env, binder) for q in p[1])
    if k == "or":
        return any(eval_guard(q, env, binder) for q in p[1])
    a = atom_of(p, binder)
    if a is None or a[1] is None:
        raise AnalysisError(f"unrecognised classification test {show_pred(p)[:200]}")
    if a not in env:
        raise KeyError(a)
    return env[a]


def envs_for(worlds, masked):
    """All assignments of the classification atoms: per (world, conditional) verified / falsified / neither; for a
    conditional with literal mask via the two bit tests (la: antecedent literal holds, lc: consequent literal holds)."""
    cells = [(w, k) for w in worlds for k in sorted(masked)]
    opts = []
    for w, k in cells:
        if masked[k]:
            opts.append([(la, lc) for la in (True, False) for lc in (True, False)])
        else:
            opts.append([(True, False), (False, True), (False, False)])
    for combo in itertools.product(*opts):
        env = {}
        for (w, k), val in zip(cells, combo):
            if masked[k]:
                la, lc = val
                env[("la", w, k)] = la
                env[("lc", w, k)] = lc
                env[("v", w, k)] = la and lc
                env[("f", w, k)] = la and not lc
            else:
                env[("v", w, k)], env[("f", w, k)] = val
        yield env


def _consts(vw, what):
    if not (isinstance(vw, tuple) and vw[0] == "list"):
        raise AnalysisError(f"{what}: not a list: {vw!r}"[:200])
    out = []
    for s in vw[1]:
        if s[0] == "one" and isinstance(s[1], Const):
            out.append(s[1].value)
        else:
            raise AnalysisError(f"{what}: non-concrete member {s!r}"[:200])
    return tuple(sorted(out))


def _triple(vw, binder):
    """(rank world, accepted indices, rejected indices) of a triple view."""
    if isinstance(vw, tuple) and vw[0] == "tuple":
        items = list(vw[1])
    elif isinstance(vw, tuple) and vw[0] == "list" and all(s[0] == "one" for s in vw[1]):
        items = [s[1] for s in vw[1]]
    else:
        raise AnalysisError(f"triple of unknown shape {vw!r}"[:200])
    if len(items) != 3:
        return ("arity", len(items))
    r = items[0]
    rw = None
    if isinstance(r, Sym) and isinstance(r.label, tuple) and r.label[:1] == ("rank",):
        rw = _wnorm(r.label[1], binder)
    return (("rank", rw) if rw is not None else ("other", repr(r)), _consts(items[1], "accepted"), _consts(items[2], "rejected"))


def extracted_lists(state, dref, env):
    """{key: multiset of triples} of a vMin / fMin dictionary under an assignment."""
    d = state.heap.get(dref.oid) if isinstance(dref, Ref) else None
    if not isinstance(d, HDict) or d.each or d.sym:
        raise AnalysisError("compilation result is not a dictionary with one entry per conditional")
    out = {}
    for key, v in d.entries.items():
        vw = view(state, v)
        if not (isinstance(vw, tuple) and vw[0] == "list"):
            raise AnalysisError(f"entry {key!r} is not a list")
        got = []
        for s in vw[1]:
            if s[0] == "one":
                got.append(_triple(s[1], None))
            elif s[0] == "each" and s[2] == WORLDS:
                if eval_guard(s[3], env, s[1]):
                    got.append(_triple(s[4], s[1]))
            else:
                raise AnalysisError(f"entry {key!r}: segment {s[0]} over {s[2] if len(s) > 2 else ''}")
        out[key] = sorted(got, key=repr)
    return out


def spec_lists(worlds, keys, env):
    v, f = {}, {}
    for k in keys:
        v[k], f[k] = [], []
        for w in worlds:
            acc = tuple(sorted(j for j in keys if j != k and env[("v", w, j)]))
            rej = tuple(sorted(j for j in keys if j != k and env[("f", w, j)]))
            t = (("rank", w), acc, rej)
            if env[("v", w, k)]:
                v[k].append(t)
            elif env[("f", w, k)]:
                f[k].append(t)
        v[k].sort(key=repr)
        f[k].sort(key=repr)
    return v, f


def _show_env(env):
    return ", ".join(f"{a[0]}{a[2]}({a[1]})={'T' if b else 'F'}" for a, b in sorted(env.items()) if a[0] in ("v", "f"))


def check_sig_index(rep, site, p):
    """MASK.positions: the name → position table handed to the mask extraction maps every signature entry to its own
    position (the position its bit has in a world string, WORLD.literals)."""
    SIGF = ("members", preocf.SIG)
    seen = False
    for ev, Q in iter_events(p.events):
        if ev.kind != "masks" or seen:
            continue
        seen = True
        d = p.state.heap.get(ev.sig.oid) if isinstance(ev.sig, Ref) else None
        ok = False
        got = repr(ev.sig)
        if isinstance(d, HDict) and not d.entries and not d.sym and len(d.each) == 1:
            _, b, fam, g, kt, vt = d.each[0]
            ok = fam == SIGF and g == PTRUE and isinstance(kt, ElemV) and kt.var == b and isinstance(vt, LinV) and vt.lin == ((((("pos", b, SIGF)), 1),), 0)
            got = f"{F.show_desc(fam)}: {kt!r} -> {vt!r}"
        rep.check(ok, "MASK.positions", site, "name → position table", "every atom of the signature is mapped to its own position in the signature", extracted=got[:200], required="{v: i for i, v in enumerate(signature)}", function=site)
    return seen


def compare_compilation(rep, rule, site, label, state, rv, worlds, keys, envs, function):
    """REV.classify + REV.triple-positions (writer): the returned (vMin, fMin) against the specification, under every
    assignment in `envs`."""
    if not (isinstance(rv, TupleV) and len(rv.items) == 2):
        rep.violation(rule, site, label, "the compilation is a pair (vMin, fMin)", extracted=repr(rv)[:120], required="(vMin, fMin)", function=function)
        return 0
    n = 0
    bad = {}
    for env in envs:
        n += 1
        try:
            gv = extracted_lists(state, rv.items[0], env)
            gf = extracted_lists(state, rv.items[1], env)
        except KeyError as e:
            raise AnalysisError(f"{site}: {label}: test {e} outside the instantiation")
        except MixedTest as e:
            rep.violation(rule, site, f"{label}: bit test", "a literal is tested by comparing the bit at its own position with its own polarity", extracted=str(e), required="bits[a_idx]==a_val / bits[c_idx]==c_val", function=function)
            return n
        sv, sf = spec_lists(worlds, keys, env)
        for side, got, want in (("vMin", gv, sv), ("fMin", gf, sf)):
            if set(got) != set(want):
                bad.setdefault((side, "keys"), (f"keys {sorted(got)}", f"keys {sorted(want)}", env))
                continue
            for k in keys:
                if got[k] != want[k]:
                    bad.setdefault((side, k), (f"{got[k]}", f"{want[k]}", env))
    for side in ("vMin", "fMin"):
        for k in ["keys"] + list(keys):
            slot = f"{label}: {side}[{k}]" if k != "keys" else f"{label}: {side} keys"
            if (side, k) in bad:
                g, w, env = bad[(side, k)]
                rep.violation(rule, site, slot, "a world contributes (rank, accepted others, rejected others) to vMin[i] iff it verifies c_i, to fMin[i] iff it falsifies c_i",
                              extracted=f"under {_show_env(env)}: {g}", required=w, function=function)
            else:
                rep.ok(rule, site, slot, f"agrees with the specification under all {n} assignments of the classification tests")
    return n


# ----------------------------------------------------------------------------------------------
def classify(rep, ex: Explorer, fn: str):
    """REV.classify on compile_alt / compile_alt_fast (generic worlds, two concrete conditionals)."""
    qual = f"{MOD}.{fn}"
    site = fn_label(ex.prog, qual)

    def setup(I):
        revs = I.new_list([mkcond(I, 1), mkcond(I, 2)])
        return [preocf._obj(I), revs], {}

    paths = ex.run(qual, setup, summaries=_summ(), key="crev-" + fn)
    n = 0
    for p in paths:
        if p.outcome[0] != "return":
            rep.violation("REV.classify", site, f"outcome {p.outcome[0]}", "the compilation of well-formed conditionals returns", extracted=repr(p.outcome[1])[:100], required="return", function=site)
            continue
        masked = {k: (decided(p, ("masknone", k)) is False) for k in (1, 2)}
        check_sig_index(rep, site, p)
        label = "masks " + ",".join(f"c{k}:{'literal' if masked[k] else 'solver'}" for k in (1, 2))
        n += compare_compilation(rep, "REV.classify", site, label, p.state, p.outcome[1], ["w"], (1, 2), envs_for(["w"], masked), site)
    rep.floor(f"REV.classify assignments of {fn}", n, 9)


def _path_envs(p, worlds, keys_all):
    """Assignments of the classification atoms consistent with what the path decided."""
    masked = {k: (decided(p, ("masknone", k)) is False) for k in keys_all}
    fixed = {}
    for key, val in p.decisions:
        try:
            a = atom_of(key, None)
        except MixedTest:
            a = None
        if a is not None and a[1] is not None:
            fixed[a] = val
    out = []
    for env in envs_for(worlds, masked):
        if all(env.get(a) == v for a, v in fixed.items()):
            out.append(env)
    return masked, out


SEQUENCES = {
    # name: (initial conditionals, operations, conditionals of the fresh model it must equal)
    "fresh [c1,c2]": ((1, 2), (), (1, 2)),
    "[c1] + add c2": ((1,), (("add", 2),), (1, 2)),
    "[c1,c2] - remove 2": ((1, 2), (("remove", 2),), (1,)),
    "[c1,c2] - remove 1": ((1, 2), (("remove", 1),), (2,)),
    "[c1] + add c2 - remove 1": ((1,), (("add", 2), ("remove", 1)), (2,)),
    "[c1,c2] - remove 3 (absent)": ((1, 2), (("remove", 3),), (1, 2)),
    "[c1,c2], compiled twice": ((1, 2), (("compile",),), (1, 2)),
    "[c1] + add c2 - remove 2 + add c2": ((1,), (("add", 2), ("remove", 2), ("add", 2)), (1, 2)),
}


def model_sequences(rep, ex: Explorer, nworlds=2, only=None):
    """REV.classify on the incremental model and REV.incremental: after any of the listed add/remove sequences
    `to_compilation()` equals the specification for the model's current conditionals (what a fresh model gives)."""
    qual = f"{CM}.to_compilation"
    site = fn_label(ex.prog, qual)
    worlds = [f"w{n}" for n in range(1, nworlds + 1)]
    total = 0
    for name, (init, ops, final) in SEQUENCES.items():
        if only and name not in only:
            continue

        def setup(I, init=init, ops=ops):
            rf = mkrf_concrete(I, nworlds)
            conds = {k: mkcond(I, k) for k in (1, 2)}
            m = I.alloc(HObj(CM, {}))
            I.call_function(ex.prog.function(CM + ".__init__"), [m, rf, I.new_list([conds[k] for k in init])], {}, None)
            for op in ops:
                if op[0] == "add":
                    I.call_function(ex.prog.function(CM + ".add_conditional"), [m, conds[op[1]]], {}, None)
                elif op[0] == "remove":
                    I.call_function(ex.prog.function(CM + ".remove_conditional"), [m, Const(op[1])], {}, None)
                elif op[0] == "compile":
                    I.call_function(ex.prog.function(CM + ".to_compilation"), [m], {}, None)
            return [m], {}

        try:
            paths = ex.run(qual, setup, summaries=_summ(), key=f"crevm-{nworlds}-{name}")
        except RaiseSig as r:
            rep.violation("REV.incremental", site, name, "the sequence of model operations completes", extracted=f"raises {r.exc!r}", required="no exception", function=site)
            continue
        rule = "REV.classify" if not ops else "REV.incremental"
        n = 0
        bad = None
        if paths and not ops:
            check_sig_index(rep, fn_label(ex.prog, CM + ".__init__"), paths[0])
        for p in paths:
            if p.outcome[0] != "return":
                bad = bad or (f"outcome {p.outcome[0]} {p.outcome[1]!r}"[:160], "return", {})
                continue
            masked, envs = _path_envs(p, worlds, (1, 2))
            rv = p.outcome[1]
            if not (isinstance(rv, TupleV) and len(rv.items) == 2):
                bad = bad or (repr(rv)[:100], "(vMin, fMin)", {})
                continue
            for env in envs:
                n += 1
                gv = extracted_lists(p.state, rv.items[0], env)
                gf = extracted_lists(p.state, rv.items[1], env)
                sv, sf = spec_lists(worlds, final, env)
                if (gv, gf) != (sv, sf) and bad is None:
                    side = "vMin" if gv != sv else "fMin"
                    g, w = (gv, sv) if gv != sv else (gf, sf)
                    bad = (f"{side} = {g}", f"{side} = {w}", env)
        total += n
        if bad is not None:
            g, w, env = bad
            rep.violation(rule, site, name, "the incremental model compiles to what the specification gives for its current conditionals", extracted=(f"under {_show_env(env)}: " if env else "") + g[:300], required=w[:300], function=site)
        else:
            rep.ok(rule, site, name, f"to_compilation() equals the specification for {list(final)} on all {len(paths)} paths / {n} assignments ({nworlds} worlds)")
    rep.floor("REV.incremental assignments", total, 9 * len(SEQUENCES) if not only else 9)


def wsat_meaning(rep, ex: Explorer):
    """REV.classify [satisfaction test]: world_satisfies_conditionalization(w, φ) = SAT(literals of w ∧ φ)."""
    qual = f"{preocf.PO}.world_satisfies_conditionalization"
    site = fn_label(ex.prog, qual)
    Wd = ("obj", "world")
    PHI = ("opaque", "PHI")

    def setup(I):
        return [preocf._obj(I), ElemV(Wd, "key"), FormulaV(PHI, "pysmt")], {}

    paths = ex.run(qual, setup, summaries=preocf._summ(), key="wsat")
    n = 0
    for p in paths:
        if p.outcome[0] != "return":
            continue
        qs = [ev for ev, Q in iter_events(p.events) if ev.kind == "query"]
        n += 1
        if len(qs) != 1:
            rep.violation("REV.classify", site, "satisfaction test", "one satisfiability test", extracted=f"{len(qs)} tests", required="1", function=site)
            continue
        want = preocf.world_items(Wd) + [("f", PHI)]
        rep.check(canon_items(flat(qs[0].frames)) == canon_items(want), "REV.classify", f"{site}:{qs[0].node.lineno}", "satisfaction test scope",
                  "the test is asked over the world's literals and the formula, nothing else", extracted=show_items(flat(qs[0].frames)), required=show_items(want), function=site)
        pr = returned_bool(None, p.outcome[1])
        rep.check(pr == ("sat", qs[0].qid), "REV.classify", site, "satisfaction test verdict", "a world satisfies the formula iff the test is satisfiable", extracted=show_pred(pr), required="SAT", function=site)
    rep.floor("world_satisfies_conditionalization paths", n, 1)


def mask_literal(rep, ex: Explorer, mod: str):
    """MASK.literal on _extract_cond_masks / _literal_info (both copies): the mask of a conditional is
    (position of the antecedent's variable, its polarity, position of the consequent's variable, its polarity) when
    both are literals (x: polarity 1, ¬x: polarity 0, variable taken from under the negation), else None."""
    qual = f"{mod}._extract_cond_masks"
    site = fn_label(ex.prog, qual)

    def setup(I):
        c = I.alloc(HObj(COND_CLASS, {"antecedence": FormulaV(("opaque", "ANT"), "pysmt"), "consequence": FormulaV(("opaque", "CONS"), "pysmt"), "index": Const(1)}))
        b = I.fresh_var("s")
        sig = I.alloc(HDict(each=[("each", b, ("members", ("signature",)), PTRUE, ElemV(b, "str"), Sym(("pos", b), "int"))]))
        return [c, sig], {}

    paths = ex.run(qual, setup, summaries=dict(wrappers.SUMMARIES), key="mask-" + mod)

    def lit(p, part):
        """(variable formula, polarity) of a part on this path per the specification, or None."""
        f = ("f", ("opaque", part))
        inner = ("f", ("opaque", ("arg", ("opaque", part), ("c", 0))))
        s = decided(p, ("fnode", "is_symbol", f))
        if s is True:
            return (f, 1)
        if s is False and decided(p, ("fnode", "is_not", f)) is True and decided(p, ("fnode", "is_symbol", inner)) is True:
            return (inner, 0)
        if s is None:
            return "undecided"
        return None

    n = 0
    for p in paths:
        if p.outcome[0] != "return":
            # a lookup failure is handled inside; anything else is unexpected
            rep.violation("MASK.literal", site, "outcome", "the extraction returns a mask or None", extracted=repr(p.outcome)[:120], required="return", function=site)
            continue
        la, lc = lit(p, "ANT"), lit(p, "CONS")
        rv = p.outcome[1]
        n += 1
        case = f"antecedent {'literal' if isinstance(la, tuple) else la}, consequent {'literal' if isinstance(lc, tuple) else lc}"
        if la is None or lc is None:
            rep.check(isinstance(rv, Const) and rv.value is None, "MASK.literal", site, case, "no mask unless both parts are literals (the solver classifies)", extracted=repr(rv)[:160], required="None", function=site)
            continue
        if isinstance(rv, Const) and rv.value is None:
            # declining the fast path is always sound
            rep.ok("MASK.literal", site, case + " → None", "the fast path is declined (the solver classifies)")
            continue
        if la == "undecided" or lc == "undecided":
            rep.violation("MASK.literal", site, case, "a mask is built only after both parts were recognised as literals", extracted=repr(rv)[:160], required="None or tested literals", function=site)
            continue
        want = []
        for f, pol in (la, lc):
            want.append(("sym", ("dictitem", ("symbol_name", f))))
            want.append(("const", pol))
        got = []
        if isinstance(rv, TupleV) and len(rv.items) == 4:
            for it in rv.items:
                if isinstance(it, Const):
                    got.append(("const", it.value))
                elif isinstance(it, Sym) and isinstance(it.label, tuple) and it.label[:1] == ("dictitem",):
                    got.append(("sym", ("dictitem", it.label[2])))
                else:
                    got.append(("other", repr(it)))
        rep.check(got == want, "MASK.literal", site, case, "(position of the antecedent variable, polarity, position of the consequent variable, polarity)",
                  extracted=repr(got)[:300], required=repr(want)[:300], function=site)
    rep.floor(f"MASK.literal paths of {mod}", n, 9)


# ----------------------------------------------------------------------------------------------
# translate_to_csp with symbolize_minima_expression inlined
# ----------------------------------------------------------------------------------------------
IDX = ("members", ("idx",))
FPD, FMD = ("fixedplus",), ("fixedminus",)
XJ = ("X",)


def _gen(x, binder):
    """Replace every reference to the loop element (whatever its role) by the placeholder X."""
    if isinstance(x, tuple):
        if len(x) == 3 and x[0] == "elem" and x[1] == binder:
            return XJ
        return tuple(_gen(i, binder) for i in x)
    return x


def _param_class(lin):
    """Classify a (generalised) linear value: the fixed value / free symbol of gamma+ or gamma-, zero, or other."""
    terms, c = lin
    if not terms:
        return "zero" if c == 0 else f"const {c}"
    if len(terms) == 1 and c == 0 and terms[0][1] == 1:
        t = terms[0][0]
        if t == ("int", ("item", ("elem", FPD, "optional"), XJ)):
            return "fixed+"
        if t == ("int", ("item", ("elem", FMD, "optional"), XJ)):
            return "fixed-"
        if t == ("isym", ("name", ("gamma+_", XJ))):
            return "sym+"
        if t == ("isym", ("name", ("gamma-_", XJ))):
            return "sym-"
    return "other " + F.show_lin(lin)[:80]


def _fix_env(p, inFP, inFM):
    return {"FP": inFP, "FM": inFM}


def _eval_fix_guard(g, binder, env):
    k = g[0]
    if k == "const":
        return g[1]
    if k == "not":
        return not _eval_fix_guard(g[1], binder, env)
    if k == "and":
        return all(_eval_fix_guard(q, binder, env) for q in g[1])
    if k == "or":
        return any(_eval_fix_guard(q, binder, env) for q in g[1])
    if k == "in":
        gg = _gen(g, binder)
        if gg == ("in", XJ, FPD):
            return env["FP"]
        if gg == ("in", XJ, FMD):
            return env["FM"]
    raise AnalysisError(f"unrecognised guard {show_pred(g)[:160]}")


def spec_param(sign, fixed, zero):
    if sign == "+":
        return "fixed+" if fixed else ("zero" if zero else "sym+")
    return "fixed-" if fixed else "sym-"


WRONG_FREE = "the free symbol of that parameter instead of its fixed value"


def translate(rep, ex: Explorer):
    """REV.relation [parameters, non-negativity, wiring], REV.one-term, REV.triple-positions (reader) and
    REV.fixed-everywhere on translate_to_csp with symbolize_minima_expression inlined."""
    qual = f"{MOD}.translate_to_csp"
    site = fn_label(ex.prog, qual)
    ssite = fn_label(ex.prog, f"{MOD}.symbolize_minima_expression")

    def comp(I, tag):
        b = I.fresh_var("n")
        return I.alloc(HDict(each=[("each", b, IDX, PTRUE, ElemV(b, "key"), ElemV((tag, b), "coll", "triple"))]))

    def setup(I):
        c = TupleV((comp(I, "vtr"), comp(I, "ftr")))
        return [c, Sym("gpz", "bool")], {"fixed_gamma_plus": ElemV(FPD, "optional", "dict"), "fixed_gamma_minus": ElemV(FMD, "optional", "dict")}

    def enc(I, fi, args, kwargs, node):
        I.log("enc", node, args=tuple(args), kwargs=dict(kwargs))
        return I.alloc(HList([("sym", "ENC")]))

    summ = dict(wrappers.SUMMARIES)
    summ[f"{MOD}.encoding"] = enc
    paths = ex.run(qual, setup, summaries=summ, key="crev-translate")
    n = 0
    for p in paths:
        if p.outcome[0] != "return":
            rep.violation("REV.relation", site, "outcome", "the translation returns a constraint list", extracted=repr(p.outcome)[:100], required="return", function=site)
            continue
        nFP, nFM, Z = decided(p, ("isnone", FPD)), decided(p, ("isnone", FMD)), decided(p, ("truthy", "gpz"))
        mode = f"fixed+ {'absent' if nFP else 'given'}, fixed- {'absent' if nFM else 'given'}, gamma_plus_zero={Z}"
        encs = [ev for ev, Q in iter_events(p.events) if ev.kind == "enc"]
        if len(encs) != 1 or len(encs[0].args) != 3:
            rep.violation("REV.relation", site, f"encoding call ({mode})", "the constraints come from one call of encoding(gammas, vSums, fSums)", extracted=f"{len(encs)} call(s)", required="1", function=site)
            continue
        n += 1
        gam, vs, fs = encs[0].args
        cases = [(fp, fm) for fp in ((False,) if nFP else (True, False)) for fm in ((False,) if nFM else (True, False))]
        # --- the parameter table -------------------------------------------------------------------
        gd = p.state.heap.get(gam.oid) if isinstance(gam, Ref) else None
        if not isinstance(gd, HDict) or gd.entries or gd.sym:
            raise AnalysisError(f"{site}: gammas is not a per-index mapping")
        for fp, fm in cases:
            env = {"FP": fp, "FM": fm}
            hit = [e for e in gd.each if e[2] == IDX and _eval_fix_guard(e[3], e[1], env)]
            case = f"{mode}; index {'fixed+' if fp else 'free+'}/{'fixed-' if fm else 'free-'}"
            if len(hit) != 1 or not (isinstance(hit[0][5], TupleV) and len(hit[0][5].items) == 2) or not (isinstance(hit[0][4], ElemV) and hit[0][4].var == hit[0][1]):
                rep.violation("REV.relation", site, f"parameters ({case})", "one (gamma+, gamma-) pair per index of the compilation, stored under that index", extracted=f"{len(hit)} entries", required="1", function=site)
                continue
            b = hit[0][1]
            got = tuple(_param_class(_gen(v.lin, b)) if isinstance(v, LinV) else "other " + repr(v)[:60] for v in hit[0][5].items)
            want = (spec_param("+", fp, Z), spec_param("-", fm, Z))
            rep.check(got == want, "REV.relation", site, f"parameters ({case})", "gamma+ is its fixed value, else 0 when gamma+ are fixed to zero, else the symbol gamma+_i; gamma- is its fixed value or the symbol gamma-_i",
                      extracted=f"(gamma+, gamma-) = {got}", required=str(want), function=site)
        # --- non-negativity --------------------------------------------------------------------------
        vw = view(p.state, p.outcome[1])
        if not (isinstance(vw, tuple) and vw[0] == "list"):
            raise AnalysisError(f"{site}: result is not a list")
        has_enc = any(sg == ("sym", "ENC") for sg in vw[1])
        rep.check(has_enc, "REV.relation", site, f"constraints kept ({mode})", "the acceptance constraints of encoding() are part of the result", extracted="present" if has_enc else "dropped", required="present", function=site)
        for fp, fm in cases:
            env = {"FP": fp, "FM": fm}
            got = set()
            for sg in vw[1]:
                if sg[0] == "each" and sg[2] == IDX and isinstance(sg[4], FormulaV):
                    if _eval_fix_guard(sg[3], sg[1], env):
                        f = _gen(sg[4].f, sg[1])
                        if f[0] == "rel" and f[1][0]:
                            cls = _param_class((f[1][0], 0)) if len(f[1][0]) == 1 else "other"
                            got.add(f"{cls} {f[2]} {-f[1][1]}")
                        elif f[0] != "rel":
                            got.add("other " + F.show(f)[:60])
                elif sg[0] in ("each", "one") and sg != ("sym", "ENC") and not (sg[0] == "one" and isinstance(sg[1], FormulaV) and sg[1].f[0] == "rel" and not sg[1].f[1][0]):
                    got.add("other segment")
            want = set()
            if spec_param("+", fp, Z) == "sym+":
                want.add("sym+ >= 0")
            if spec_param("-", fm, Z) == "sym-":
                want.add("sym- >= 0")
            case = f"{mode}; index {'fixed+' if fp else 'free+'}/{'fixed-' if fm else 'free-'}"
            rep.check(got == want, "REV.relation", site, f"non-negativity ({case})", "exactly the symbolic parameters are constrained to be non-negative", extracted=str(sorted(got)), required=str(sorted(want)), function=site)
        # --- the sums ------------------------------------------------------------------------------------
        for tag, arg, name in (("vtr", vs, "vSums"), ("ftr", fs, "fSums")):
            d = p.state.heap.get(arg.oid) if isinstance(arg, Ref) else None
            if not isinstance(d, HDict) or d.entries or d.sym or len(d.each) != 1:
                rep.violation("REV.relation", site, f"{name} ({mode})", f"{name} holds the summands of compilation[{0 if tag == 'vtr' else 1}] per index", extracted=repr(arg)[:80], required="symbolize_minima_expression(compilation[..])", function=site)
                continue
            _, ib, fam, g, kt, vt = d.each[0]
            lv = view(p.state, vt)
            okw = fam == IDX and g == PTRUE and isinstance(kt, ElemV) and kt.var == ib
            segs = [sg for sg in lv[1]] if isinstance(lv, tuple) and lv[0] == "list" else []
            fams = {sg[2] for sg in segs if sg[0] == "each"}
            okw = okw and fams == {("members", (tag, ib))}
            rep.check(okw, "REV.relation", site, f"{name} wiring ({mode})", f"{name}[i] ranges over the triples of index i of the {'verifying' if tag == 'vtr' else 'falsifying'} side",
                      extracted=f"{sorted(map(repr, fams))}"[:200], required=f"triples of ({tag}, i)", function=site)
            if not okw:
                continue
            # REV.one-term: under every shape of a triple (accepted / rejected list empty or not) exactly one summand
            eachs = [sg for sg in segs if sg[0] == "each"]
            if len(eachs) != len(segs) or not eachs:
                rep.violation("REV.one-term", ssite, f"{name} ({mode})", "the summands of an index come from its world triples only", extracted=f"{len(segs) - len(eachs)} unconditional item(s)", required="one summand per triple", function=ssite)
                continue
            for ne1, ne2 in ((True, True), (True, False), (False, True), (False, False)):
                shape = f"accepted {'non-empty' if ne1 else 'empty'}, rejected {'non-empty' if ne2 else 'empty'}"

                def ev(g, tb):
                    k = g[0]
                    if k == "const":
                        return g[1]
                    if k == "not":
                        return not ev(g[1], tb)
                    if k == "and":
                        return all(ev(q, tb) for q in g[1])
                    if k == "or":
                        return any(ev(q, tb) for q in g[1])
                    if g == ("cmp", "<", ("lin", (((("len", tb), 1),), -3)), ("c", 0)):
                        return False  # well-formed triple
                    for kk, val in ((1, ne1), (2, ne2)):
                        it = ("item", ("elem", tb, "triple"), ("c", kk))
                        if g == ("truthy", it):
                            return val
                        if g == ("empty", it) or g == ("empty", ("members", it)):
                            return not val
                    raise AnalysisError(f"{ssite}: unrecognised summand guard {show_pred(g)[:160]}")

                app = [sg for sg in eachs if ev(sg[3], sg[1])]
                ok1 = len(app) == 1
                rep.check(ok1, "REV.one-term", ssite, f"{name}, {shape} ({mode})", "every world triple contributes exactly one summand rank + Σ gamma+ of the accepted + Σ gamma- of the rejected conditionals",
                          extracted=f"{len(app)} summand(s)" + ("" if ok1 else ": " + " ; ".join(repr(sg[4])[:90] for sg in app)), required="1 summand", function=ssite)
                if not ok1:
                    continue
                tb = app[0][1]
                val = app[0][4]
                if not isinstance(val, LinV):
                    rep.violation("REV.one-term", ssite, f"{name} summand, {shape} ({mode})", "the summand is a linear term", extracted=repr(val)[:120], required="rank + sums", function=ssite)
                    continue
                terms, c0 = val.lin
                pos = {1: [], 2: []}
                other = []
                nrank = 0
                for t, cf in terms:
                    if isinstance(t, tuple) and t[0] == "bigsum" and isinstance(t[2], tuple) and t[2][0] == "members" and t[2][1][:2] == ("item", ("elem", tb, "triple")) and cf == 1:
                        which = t[2][1][2]
                        if which in (("c", 1), ("c", 2)):
                            pos[which[1]].append((t[1], t[3], t[4]))
                            continue
                    if t == ("int", ("item", ("elem", tb, "triple"), ("c", 0))) and cf == 1:
                        nrank += 1
                        continue
                    other.append(repr(t)[:80])
                rep.check(c0 == 0 and nrank == 1 and not other, "REV.triple-positions", ssite, f"{name} rank, {shape} ({mode})", "the prior rank of the world (position 0 of the triple) enters the summand once, nothing else besides the parameter sums",
                          extracted=f"rank x{nrank}, constant {c0}, other {other}"[:200], required="rank x1", function=ssite)
                for which, sign, nonempty in ((1, "+", ne1), (2, "-", ne2)):
                    if not nonempty:
                        continue  # a sum over an empty list is 0 whatever its body
                    for fp, fm in cases:
                        fixed = fp if sign == "+" else fm
                        env = {"FP": fp, "FM": fm}
                        total = ((), 0)
                        for jb, g, body in pos[which]:
                            if _eval_fix_guard(g, jb, env):
                                total = F.lin_add(total, _gen(body, jb))
                        got = _param_class(total)
                        want = spec_param(sign, fixed, Z)
                        who = "accepted" if which == 1 else "rejected"
                        if got == want:
                            rep.ok("REV.triple-positions" if not fixed else "REV.fixed-everywhere", ssite, f"{name}: gamma{sign} of {'a fixed' if fixed else 'a free'} {who} conditional, {shape} ({mode})",
                                   f"position {which} of the triple contributes {want}")
                        elif fixed:
                            how = WRONG_FREE if got == spec_param(sign, False, Z) else f"{got}"
                            rep.violation("REV.fixed-everywhere", ssite, f"gamma{sign} of a conditional with fixed gamma{sign} inside the minima sums: {how}",
                                          "a parameter that is fixed enters the minima sums with its fixed value, as it does in the acceptance constraint", extracted=f"{name}, {shape}, {mode}: {got}", required=want, function=ssite)
                        else:
                            rep.violation("REV.triple-positions", ssite, f"{name}: gamma{sign} of a free {who} conditional, {shape} ({mode})", f"position {which} of the triple ({who} conditionals) contributes gamma{sign}",
                                          extracted=got, required=want, function=ssite)
    rep.floor("translate_to_csp paths", n, 8)


def check_all(rep, ex: Explorer):
    wsat_meaning(rep, ex)
    mask_literal(rep, ex, MOD)
    mask_literal(rep, ex, MMOD)
    classify(rep, ex, "compile_alt")
    classify(rep, ex, "compile_alt_fast")
    model_sequences(rep, ex)
    translate(rep, ex)
