"""C06.D7: DIAG.flags on consistency_diagnostics, and facts_jointly_satisfiable."""
from __future__ import annotations

from .. import formula as F
from ..absint import iter_events
from ..absvals import Const, Sym, PredV, FormulaV, LinV, Ref, ElemV, HDict, PTRUE, desc, show_pred
from ..front import AnalysisError
from ..harness import Explorer, make_belief_base, fn_label, decided, KEYS_D, eval_pred, pred_atoms, returned_bool, canon_items, flat, show_items
from . import wrappers

QUAL = "inference.consistency_diagnostics.consistency_diagnostics"
FACTS = ("members", ("facts",))


def _summ():
    s = dict(wrappers.SUMMARIES)

    def fjs(I, fi, args, kwargs, node):
        I.log("facts_sat", node, args=tuple(args))
        return PredV(("factsok",))

    s["inference.consistency_diagnostics.facts_jointly_satisfiable"] = fjs
    s["inference.consistency_diagnostics._parse_fact"] = lambda I, fi, a, k, n: FormulaV(("opaque", ("parsed", desc(a[0]))), "pysmt")
    s["inference.consistency_diagnostics._validate_fact_vars"] = lambda I, fi, a, k, n: Const(None)
    return s


def _last(pid):
    return ("at", ("part", pid), ("lin", F.lin_add(F.lin_term(("len", ("part", pid))), F.lin_const(-1))))


class WrongLayer(Exception):
    """A flag looks at a layer other than the last one."""


def _eval_flag(v, env, sizes):
    """Value of a flag (Const / PredV) under decided predicates and sizes of last layers."""
    p = returned_bool(None, v)

    def ev(q):
        k = q[0]
        if k == "const":
            return q[1]
        if k == "not":
            return not ev(q[1])
        if k in ("and", "or"):
            vals = [ev(x) for x in q[1]]
            return all(vals) if k == "and" else any(vals)
        if k == "empty" and q[1] in sizes:
            return sizes[q[1]] == 0
        if k == "empty" and isinstance(q[1], tuple) and q[1][:1] == ("part",):
            # a partition without any layer (the strict partition of the empty base)
            pe = env.get(("empty", q[1]))
            if pe is None:
                raise KeyError(("empty", q[1]))
            return pe
        if k == "empty" and isinstance(q[1], tuple) and q[1][:1] == ("at",):
            raise WrongLayer(q[1])
        if k == "cmp" and q[1] == "==" and len(q) == 4:
            # identity / equality of a partition-or-False value with a Boolean constant: a partition is never True
            for a, b in ((q[2], q[3]), (q[3], q[2])):
                if a in (("c", True), ("c", False)) and isinstance(b, tuple) and b[:1] == ("elem",) and b[-1] == "partition":
                    pf = env.get(("partfalse", b[1]))
                    if pf is None:
                        raise KeyError(("partfalse", b[1]))
                    return (a[1] is False) and pf
        if k == "cmp" and isinstance(q[2], tuple) and q[2][:1] == ("lin",):
            lin = q[2][1]
            x = lin[1]
            for t, c in lin[0]:
                if isinstance(t, tuple) and t[0] == "len" and t[1] in sizes:
                    x += c * sizes[t[1]]
                elif isinstance(t, tuple) and t[0] == "len" and isinstance(t[1], tuple) and t[1][:1] == ("at",):
                    raise WrongLayer(t[1])
                else:
                    raise KeyError(t)
            return (x == 0) if q[1] == "==" else (x < 0)
        if q in env:
            return env[q]
        raise KeyError(q)

    return ev(p)


def flags(rep, ex: Explorer):
    site = fn_label(ex.prog, QUAL)
    n = 0
    for extended in (True, False):
        for uses_facts in (True, False):
            def setup(I, extended=extended, uses_facts=uses_facts):
                bb = make_belief_base(I)
                return [bb], {"extended": Const(extended), "uses_facts": Const(uses_facts), "facts": ElemV(("facts",), "coll", "factentry") if uses_facts else Const(None)}

            paths = ex.run(QUAL, setup, summaries=_summ(), key=f"diag-{extended}-{uses_facts}")
            mode = f"extended={extended}, facts={uses_facts}"
            for p in paths:
                if p.outcome[0] != "return":
                    continue
                d = p.state.heap.get(p.outcome[1].oid) if isinstance(p.outcome[1], Ref) else None
                if not isinstance(d, HDict):
                    raise AnalysisError(f"{site}: result is not a mapping")
                cons = [ev for ev, Q in iter_events(p.events) if ev.kind == "summary.consistency"]
                base = [c for c in cons if all(e[0] == KEYS_D for e in c.bbdesc[2]) and not c.bbdesc[1]]
                comb = [c for c in cons if any(e[0] == FACTS for e in c.bbdesc[2])]
                where = site
                ok_runs = len(base) == 1 and (len(comb) == 1) == uses_facts and len(cons) == len(base) + len(comb)
                rep.check(ok_runs, "DIAG.flags", where, f"partition runs ({mode})", "one partition run for the base and, with facts, one for base ∪ facts", extracted=f"{len(base)} base run(s), {len(comb)} combined run(s), {len(cons)} total", required="1 + (1 if facts)", function=site)
                if not ok_runs:
                    continue
                b = base[0]
                c = comb[0] if comb else None
                for run, what in ((b, "base"), (c, "combination")):
                    if run is None:
                        continue
                    okm = isinstance(run.weakly, Const) and bool(run.weakly.value) == extended
                    rep.check(okm, "DIAG.flags", f"{site}:{run.node.lineno}", f"{what} partition mode ({mode})", f"the {what} is partitioned in the mode the diagnostics are asked for", extracted=repr(run.weakly), required=str(extended), function=site)
                if c is not None:
                    groups = c.bbdesc[2]
                    okc = len(groups) == 2 and any(e[0] == KEYS_D for e in groups)
                    rep.check(okc, "DIAG.flags", f"{site}:{c.node.lineno}", f"combined base ({mode})", "the combined base is the base plus one conditional per fact", extracted=f"{len(groups)} group(s)", required="base ∪ facts", function=site)
                env0 = {k: v for k, v in p.decisions}
                lb, lc = _last(b.pid), (_last(c.pid) if c is not None else None)
                n += 1
                parts = [("part", b.pid)] + ([("part", c.pid)] if c is not None else [])
                free = [a for a in ([("partfalse", pv_) for pv_ in parts] + [("empty", pv_) for pv_ in parts] + ([("factsok",)] if uses_facts else [])) if a not in env0]
                import itertools
                for vals in itertools.product((False, True), repeat=len(free)):
                    env = dict(env0)
                    env.update(zip(free, vals))
                    # a partition without layers exists only in strict mode (the extended one always ends with the infinity
                    # layer) and is not the verdict False
                    if any(env[("empty", pv_)] and (extended or env[("partfalse", pv_)]) for pv_ in parts):
                        continue
                    pfb = env[("partfalse", ("part", b.pid))]
                    pfc = env[("partfalse", ("part", c.pid))] if c is not None else None
                    from .. import depth as _depth
                    for sb in _depth.card_range():
                        for sc in (_depth.card_range() if c is not None else (0,)):
                            sizes = {lb: sb}
                            if lc is not None:
                                sizes[lc] = sc
                            want = {}
                            if uses_facts:
                                want["facts_consistent"] = env[("factsok",)]
                            if extended:
                                want["belief_base_weakly_consistent"] = (pfb is False)
                                want["belief_base_consistent"] = (pfb is False) and sb == 0
                            else:
                                want["belief_base_consistent"] = (pfb is False)
                            if uses_facts:
                                want["combination_consistent"] = (pfc is False)
                                if extended and pfb is False and pfc is False:
                                    want["combination_infinity_increase"] = sc > sb
                            got = {}
                            for key in ("facts_consistent", "belief_base_weakly_consistent", "belief_base_consistent", "combination_consistent", "combination_infinity_increase"):
                                if key in d.entries:
                                    try:
                                        got[key] = _eval_flag(d.entries[key], env, sizes)
                                    except WrongLayer as e:
                                        rep.violation("DIAG.flags", site, f"{key}: layer inspected", "the flags are read off the last (infinity) layer of the extended partition", extracted=f"inspects {F.show_desc(e.args[0])[:120]}", required="the last layer", function=site)
                                        got[key] = want.get(key, "absent")
                                    except KeyError as e:
                                        raise AnalysisError(f"{site}: flag {key} depends on {e}")
                            for key in sorted(set(want) | set(got)):
                                w, g = want.get(key, "absent"), got.get(key, "absent")
                                rep.check(w == g, "DIAG.flags", site, f"{key} ({mode}; base {'∅' if pfb else 'partition'}{'' if c is None else ', combination ' + ('∅' if pfc else 'partition')}; |last(base)|={sb}{'' if c is None else f', |last(comb)|={sc}'})",
                                          f"{key} = {g}", extracted=str(g), required=str(w), function=site)
                # aliases mirror the long names
                for short, long in (("f_consistent", "facts_consistent"), ("bb_consistent", "belief_base_consistent"), ("bb_w_consistent", "belief_base_weakly_consistent"),
                                    ("c_consistent", "combination_consistent"), ("c_infinity_increase", "combination_infinity_increase")):
                    if long in d.entries or short in d.entries:
                        rep.check(d.entries.get(short) == d.entries.get(long), "DIAG.flags", site, f"alias {short}", "the short alias carries the same value as the long key", extracted=repr(d.entries.get(short)), required=repr(d.entries.get(long)), function=site)
    rep.floor("diagnostics paths", n, 8)


def facts_sat(rep, ex: Explorer):
    """facts_consistent ⇔ SAT(⋀ facts)."""
    qual = "inference.consistency_diagnostics.facts_jointly_satisfiable"
    site = fn_label(ex.prog, qual)
    s = _summ()
    del s[qual]

    def setup(I):
        return [ElemV(("signature",), "coll", "str"), ElemV(("facts",), "coll", "factentry")], {}

    paths = ex.run(qual, setup, summaries=s, key="factsat")
    n = 0
    for p in paths:
        if p.outcome[0] != "return":
            continue
        qs = [ev for ev, Q in iter_events(p.events) if ev.kind == "query"]
        if decided(p, ("empty", ("facts",))) is True:
            rep.check(isinstance(p.outcome[1], Const) and p.outcome[1].value is True, "DIAG.flags", site, "no facts", "no facts are jointly satisfiable", extracted=repr(p.outcome[1]), required="True", function=site)
            continue
        n += 1
        ok = len(qs) == 1
        if ok:
            items = flat(qs[0].frames)
            # one item: conjunction over all facts (or the single fact)
            fs = [i[1] for i in items if i[0] == "f"]
            many = decided(p, ('cmp', '<', ('lin', (((('len', ('facts',)), -1),), 1)), ('c', 0)))
            okf = len(fs) == 1 and len(items) == 1 and _is_conj_of_facts(fs[0], many is not False)
            rep.check(okf, "DIAG.flags", f"{site}:{qs[0].node.lineno}", "facts test scope", "the facts are tested jointly, with nothing else in scope", extracted=show_items(items)[:300], required="⋀ facts", function=site)
            pr = returned_bool(None, p.outcome[1])
            rep.check(pr == ("sat", qs[0].qid), "DIAG.flags", site, "facts verdict", "facts_consistent is the satisfiability of their conjunction", extracted=show_pred(pr), required="SAT(⋀ facts)", function=site)
        else:
            rep.violation("DIAG.flags", site, "facts test", "one joint satisfiability test", extracted=f"{len(qs)}", required="1", function=site)
    rep.floor("facts_jointly_satisfiable paths", n, 1)


def _is_conj_of_facts(f, many):
    """All facts and only facts: a conjunction over the members of `facts` (several facts) or the single fact."""
    if f[0] == "and" and len(f[1]) == 1:
        return _is_conj_of_facts(f[1][0], many)
    if f[0] == "big" and f[1] == "and" and f[3] == FACTS and f[4] == ("const", True):
        return f[5][0] == "opaque" and f[5][1] == ("parsed", ("elem", f[2], "factentry"))
    if not many and f[0] == "opaque":
        return f[1] == ("parsed", ("elem", ("at", ("facts",), ("lin", ((), 0))), "factentry"))
    return False
