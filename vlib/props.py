"""Property -> rule groups."""
from __future__ import annotations

from .harness import Explorer
from .front import AnalysisError as _AnalysisError
from .rules import part, wrappers, pent, sysz, mcsops, cnf, enum, cinf, preocf
from .rules import parser as parser_rules
from .rules import diag
from .rules import crev


def _run(rep, rule_fn, *args, **kwargs):
    """One rule group.  A construct it cannot read (AnalysisError) is recorded and the other groups still run: a violation
    found by another rule stands on its own evidence; without any violation the run ends as ANALYSIS-ERROR (exit 2)."""
    from .front import AnalysisError

    only = rep.only
    try:
        return rule_fn(rep, *args, **kwargs)
    except AnalysisError as e:
        rep.analysis_errors.append(str(e))
        rep.only = only
        return None


def _class_of(table, key):
    """Class dispatched for an operator row; None when the DISPATCH obligation for that row was refuted (the
    operator rules then have nothing sound to run on, and the dispatch violation is the report)."""
    return table.get(key)


def C01(rep, prog, tier):
    rep.explanation = ("C01: negation/polarity/mode of PEntailment._inference, the shared short cut (guard by satisfiability "
                       "patterns, dominance by who-may-call), the dispatch table, and the tolerance-partition obligations PART.* of "
                       "`consistency`; decides the code's shape, not the Goldszmidt-Pearl theorem or the SAT solver")
    ex = Explorer(prog, rep)
    table = wrappers.dispatch(rep, ex)
    cls = _class_of(table, ("p-entailment", None))
    if cls:
        _run(rep, pent.check, ex, cls, strict=True, extended=False, keys=True)
    _run(rep, wrappers.shortcut_guard, ex)
    _run(rep, wrappers.shortcut_dominance, ex)
    _run(rep, part.check_all, ex, only=("inference.consistency_sat.consistency",))
    _answers_reach_the_caller(rep, ex)
    _per_query_isolation(rep, ex, table, only=("p-entailment",))


def _answers_reach_the_caller(rep, ex):
    _run(rep, wrappers.state_slots, ex)
    _answers_reach_the_caller_(rep, ex)


def _answers_reach_the_caller_(rep, ex):
    """An operator's answer is observed through single_inference / multi_inference and the manager's report: they must
    hand every query its own answer, asked in the mode of the state (ROWS.key, ROWS.columns, PAR.key, TIMEOUT.per-query:
    the operator is called with the query, the state's mode and this query's deadline in their own roles)."""
    _run(rep, wrappers.rows, ex, which=("single", "worker", "multi", "manager"), rules=("ROWS.key", "ROWS.columns", "TIMEOUT.row", "TIMEOUT.per-query", "PAR.key"))
    _run(rep, wrappers.refuse_manager, ex, rules=("ROWS.key",))


def _encoding_and_enumeration(rep, ex):
    """The summaries the MaxSAT-based operators are analysed through (CNF of a conditional's formulas, family of
    inclusion-minimal correction sets) are discharged in the same check."""
    _run(rep, cnf.roles, ex)
    _run(rep, cnf.literals, ex)
    _run(rep, cnf.constants_handling, ex)
    _run(rep, enum.violated, ex)
    _run(rep, enum.block, ex)
    _run(rep, enum.minimal, ex)
    _run(rep, enum.loop, ex)
    _run(rep, enum.shared_defaults, ex)
    _run(rep, cnf.pool, ex)


def C02(rep, prog, tier):
    rep.explanation = ("C02: System Z: partition flow from preprocessing, layer assertions / tests / decision table of the "
                       "descending recursion, strict start index, shared short cut; PART.* of `consistency`")
    ex = Explorer(prog, rep)
    table = wrappers.dispatch(rep, ex)
    cls = _class_of(table, ("system-z", None))
    if cls:
        _run(rep, sysz.check_partition_flow_plain, ex, cls, "cond")
        _run(rep, sysz.rec, ex, cls)
        _run(rep, sysz.entry_z, ex, cls, strict=True, extended=False)
    _run(rep, wrappers.shortcut_guard, ex)
    _run(rep, wrappers.shortcut_dominance, ex)
    _run(rep, part.check_all, ex, only=("inference.consistency_sat.consistency",))
    _answers_reach_the_caller(rep, ex)
    _per_query_isolation(rep, ex, table, only=("system-z",))


def C03(rep, prog, tier):
    rep.explanation = ("C03: System W, both back-ends: soft/hard items of the two minimal-correction-set computations, the "
                       "subset test (evaluated on all small families), the tie recursion and its constraints, start index")
    ex = Explorer(prog, rep)
    table = wrappers.dispatch(rep, ex)
    for key, name in ((("system-w", False), "rc2"), (("system-w", True), "z3")):
        cls = _class_of(table, key)
        if cls:
            be = mcsops.Backend(name, cls, lex=False)
            _run(rep, mcsops.preprocess_flow, ex, be, "W")
            _run(rep, mcsops.w_rec, ex, be)
            _run(rep, mcsops.w_entry, ex, be, strict=True, extended=False, keys=True)
            if name == "z3":
                _run(rep, enum.z3mcs, ex, cls)
    _run(rep, mcsops.object_identity, ex)
    _run(rep, wrappers.shortcut_guard, ex)
    _run(rep, wrappers.shortcut_dominance, ex)
    _run(rep, part.check_all, ex)
    _encoding_and_enumeration(rep, ex)
    _answers_reach_the_caller(rep, ex)
    _per_query_isolation(rep, ex, table, only=("system-w",))


def C04(rep, prog, tier):
    rep.explanation = ("C04: lexicographic inference, both back-ends: soft/hard items, strict short cuts, cardinality decision "
                       "table (evaluated over all small cardinalities), tie quantifier by two-witness instantiation, tie constraints")
    ex = Explorer(prog, rep)
    table = wrappers.dispatch(rep, ex)
    for key, name in ((("lex_inf", False), "rc2"), (("lex_inf", True), "z3")):
        cls = _class_of(table, key)
        if cls:
            be = mcsops.Backend(name, cls, lex=True)
            _run(rep, mcsops.preprocess_flow, ex, be, "LEX")
            _run(rep, mcsops.lex_rec, ex, be)
            _run(rep, mcsops.lex_ties, ex, be)
            _run(rep, mcsops.w_entry, ex, be, strict=True, extended=False, prefix="LEX", n_objects=2, keys=True)
            _run(rep, mcsops.lex_strict_shortcuts, ex, be)
            if name == "z3":
                _run(rep, enum.z3mcs, ex, cls)
    _run(rep, mcsops.object_identity, ex)
    _run(rep, wrappers.shortcut_guard, ex)
    _run(rep, wrappers.shortcut_dominance, ex)
    _run(rep, part.check_all, ex)
    _encoding_and_enumeration(rep, ex)
    _answers_reach_the_caller(rep, ex)
    _per_query_isolation(rep, ex, table, only=("lex_inf",))


def C07(rep, prog, tier):
    rep.explanation = ("C07: the extended branch of every operator: EXT.inf-hard (infinity layer's material counterparts are hard "
                       "constraints of the object handed to the recursion), EXT.vacuity (guards compared over satisfiability patterns), "
                       "EXT.start-total (start index len(P)-2 guarded against the partition that is the infinity layer alone), EXT.pinf; "
                       "siblings: the five implementations discharge one table")
    ex = Explorer(prog, rep)
    table = wrappers.dispatch(rep, ex)
    cls = _class_of(table, ("p-entailment", None))
    if cls:
        _run(rep, pent.check, ex, cls, strict=False, extended=True)
    cls = _class_of(table, ("system-z", None))
    if cls:
        _run(rep, sysz.check_partition_flow_plain, ex, cls, "cond")
        _run(rep, sysz.rec, ex, cls)
        _run(rep, sysz.entry_z, ex, cls, strict=False, extended=True)
    for key, name, lex in ((("system-w", False), "rc2", False), (("system-w", True), "z3", False),
                           (("lex_inf", False), "rc2", True), (("lex_inf", True), "z3", True)):
        cls = _class_of(table, key)
        if cls:
            be = mcsops.Backend(name, cls, lex=lex)
            # the infinity layer the extended branch works with is the last layer of the partition preprocessing stored
            _run(rep, mcsops.preprocess_flow, ex, be, "LEX" if lex else "W")
            _run(rep, mcsops.w_entry, ex, be, strict=False, extended=True, prefix="LEX" if lex else "W", n_objects=2 if lex else 1)
            # below the infinity layer the extended answer is the recursion's: its obligations are part of "exact"
            if lex:
                _run(rep, mcsops.lex_rec, ex, be)
                _run(rep, mcsops.lex_ties, ex, be)
            else:
                _run(rep, mcsops.w_rec, ex, be)
            if name == "z3":
                _run(rep, enum.z3mcs, ex, cls)
    _run(rep, part.check_all, ex)
    _encoding_and_enumeration(rep, ex)
    _run(rep, wrappers.manager_init, ex, roles=("belief_base", "inference_system", "weakly"))
    _run(rep, mcsops.object_identity, ex)  # (a rule stated twice counts twice in every layer, the infinity layer's neighbours included)
    # the answer given in front of every operator (the shared short cut) in the extended mode as well: it follows from the
    # query alone, whatever the base makes infeasible
    _run(rep, wrappers.shortcut_guard, ex)
    # nothing an operator asserts for one query stays in a constraint object that the next query finds
    rep.only = {"STATE.solver-per-query"}
    try:
        for site, paths in _operator_inference_paths(rep, ex, table):
            _run(rep, wrappers.solver_per_query, site, paths)
    except _AnalysisError as e:
        rep.analysis_errors.append(str(e))
    finally:
        rep.only = None


def _mcs_operators(rep, ex, table, strict=True, extended=True, rec=True):
    for key, name, lex in ((("system-w", False), "rc2", False), (("system-w", True), "z3", False),
                           (("lex_inf", False), "rc2", True), (("lex_inf", True), "z3", True)):
        cls = _class_of(table, key)
        if not cls:
            continue
        be = mcsops.Backend(name, cls, lex=lex)
        pre = "LEX" if lex else "W"
        _run(rep, mcsops.preprocess_flow, ex, be, pre)
        if rec:
            if lex:
                _run(rep, mcsops.lex_rec, ex, be)
                _run(rep, mcsops.lex_ties, ex, be)
                _run(rep, mcsops.lex_strict_shortcuts, ex, be)
            else:
                _run(rep, mcsops.w_rec, ex, be)
        _run(rep, mcsops.w_entry, ex, be, strict=strict, extended=extended, prefix=pre, n_objects=2 if lex else 1)
        if name == "z3":
            _run(rep, enum.z3mcs, ex, cls)


def C11(rep, prog, tier):
    rep.explanation = ("C11: BACKEND.dispatch / engine-neutral, and W.siblings / LEX.siblings / EXT.siblings: the rc2 and z3 "
                       "implementations of System W and of lexicographic inference are brought to one abstract form (hard/soft item "
                       "sets per correction-set computation, decision tables, tie constraints, start index, infinity layer, vacuity, "
                       "enumeration blocking and termination) and must discharge the same obligation table slot by slot; Z3.translate")
    ex = Explorer(prog, rep)
    table = wrappers.dispatch(rep, ex)
    _run(rep, wrappers.backend_dispatch, ex)
    _run(rep, wrappers.manager_init, ex, roles=("belief_base", "inference_system", "smt_solver", "pmaxsat_solver"))
    _run(rep, mcsops.object_identity, ex)
    _mcs_operators(rep, ex, table)
    _per_query_isolation(rep, ex, table)  # (a constraint object kept across queries is one back-end's private history)
    _run(rep, enum.loop, ex)
    _run(rep, enum.violated, ex)
    _run(rep, enum.block, ex)
    _run(rep, enum.minimal, ex)
    # only the rc2 operators read the integer CNFs: a CNF that is not faithful makes the two back-ends disagree
    _run(rep, cnf.roles, ex)
    _run(rep, cnf.literals, ex)
    _run(rep, cnf.constants_handling, ex)


def C09(rep, prog, tier):
    rep.explanation = ("C09 (three clauses): D1 reflexivity/supraclassicality through the shared short cut and its dominance; D2 "
                       "(Bottom|A) only for unsatisfiable A: each operator answers False when A∧B has no (feasible) model but A∧¬B has; D3 "
                       "direct inference needs faithful CNFs including constants and a recursion that starts at the top layer (every conditional is asserted at some level). And, Or, cautious monotony, Cut, rational monotony, "
                       "left logical equivalence and right weakening relate answers of different queries and are not decided")
    ex = Explorer(prog, rep)
    table = wrappers.dispatch(rep, ex, report=False)
    keep = {"SHORTCUT.guard", "SHORTCUT.dominance", "Z.decision", "Z.tests", "Z.layer-assert", "W.subset-test", "W.decision", "W.soft/hard",
            "LEX.cardinality", "LEX.strict-shortcuts", "LEX.soft/hard", "CNF.roles", "CNF.literals", "CNF.constants", "C.query-edges",
            "Z.start", "W.start", "LEX.start", "LEX.tie-constraints", "LEX.tie-quantifier", "LEX.balance", "W.balance", "W.ignore", "LEX.ignore",
            # direct inference: every conditional of the base stays in the base the operator reasons about (no key collision),
            # and c-inference's early exit fires only when *no* conditional can be falsified
            "KEY.no-reserved", "C01.negation", "C.selffulfilling", "C.relations",
            # the postulates relate answers to several queries over one base: each answer rests on the complete family of
            # inclusion-minimal correction sets (a set missing or a superset kept breaks Or / cautious monotony) and on an
            # acceptance constraint for every conditional of the base (direct inference)
            "MCS.minimal", "MCS.loop", "MCS.block", "MCS.violated", "Z3MCS.loop", "Z3MCS.soft", "Z3MCS.block", "Z3MCS.model", "C.empty-minimum", "C.minima-roles"}
    rep.only = keep
    try:
        _run(rep, wrappers.shortcut_guard, ex)
        _run(rep, wrappers.shortcut_dominance, ex)
        cls = _class_of(table, ("p-entailment", None))
        if cls:
            _run(rep, pent.check, ex, cls, strict=True, extended=False, keys=True, floors=False)
        cls = _class_of(table, ("c-inference", None))
        if cls:
            _run(rep, cinf.answer, ex, cls)
            _run(rep, cinf.encoding_relation, ex, cls)
            _run(rep, cinf.query_names, ex, cls)
        _run(rep, enum.violated, ex)
        _run(rep, enum.block, ex)
        _run(rep, enum.minimal, ex)
        _run(rep, enum.loop, ex)
        for key_ in (("system-w", True), ("lex_inf", True)):
            cls = _class_of(table, key_)
            if cls:
                _run(rep, enum.z3mcs, ex, cls)
        cls = _class_of(table, ("system-z", None))
        if cls:
            _run(rep, sysz.rec, ex, cls)
            _run(rep, sysz.entry_z, ex, cls, strict=True, extended=False)
        for key, name, lex in ((("system-w", False), "rc2", False), (("system-w", True), "z3", False),
                               (("lex_inf", False), "rc2", True), (("lex_inf", True), "z3", True)):
            cls = _class_of(table, key)
            if cls:
                be = mcsops.Backend(name, cls, lex=lex)
                if lex:
                    _run(rep, mcsops.lex_rec, ex, be)
                    _run(rep, mcsops.lex_ties, ex, be)
                    _run(rep, mcsops.lex_strict_shortcuts, ex, be)
                    _run(rep, mcsops.w_entry, ex, be, strict=True, extended=False, prefix="LEX", n_objects=2)
                else:
                    _run(rep, mcsops.w_rec, ex, be)
                    _run(rep, mcsops.w_entry, ex, be, strict=True, extended=False)
        _run(rep, cnf.roles, ex)
        _run(rep, cnf.literals, ex)
        _run(rep, cnf.constants_handling, ex)
    finally:
        rep.only = None


def C12(rep, prog, tier):
    rep.explanation = ("C12 (keys and non-interference): KEY.no-reserved (the query is never stored under a literal key of a mapping "
                       "keyed by the base's keys), KEY.no-positional (no running position indexes a key-indexed mapping; name families "
                       "eta_/mv_/mf_ uniformly qualified), NONINTERF (text, name, signature never reach a decision or an answer). "
                       "Invariance under reordering, renaming and equivalent rewriting is semantic and not decided")
    ex = Explorer(prog, rep)
    table = wrappers.dispatch(rep, ex, report=False)
    keep = {"KEY.no-reserved", "KEY.no-positional", "NONINTERF", "W.query-slot", "LEX.query-slot", "OBJ.identity",
            # what is fixed for one tie must not stay in force for the next one: otherwise the answer depends on the order in
            # which ties are enumerated, i.e. on the listing order of the base
            "LEX.balance", "W.balance", "LEX.tie-constraints", "W.decision",
            # a conditional listed twice (or one object under two keys) counts twice; which layers are left out of a
            # correction-set computation does not depend on where a conditional stands in the listing
            "Z3.translate", "W.ignore", "LEX.ignore",
            # necessary for invariance under reordering / equivalent rewriting: an early exit that looks at all conditionals,
            # constants evaluated instead of named
            "C.selffulfilling", "C.relations", "CNF.constants",
            # a query that cannot be falsified is answered True however it is written: the short cut is a satisfiability test
            "SHORTCUT.guard",
            # every conditional counts whatever its key
            "C.minima-roles"}
    rep.only = keep
    try:
        _run(rep, wrappers.shortcut_guard, ex)
        cls = _class_of(table, ("p-entailment", None))
        if cls:
            _run(rep, pent.check, ex, cls, strict=True, extended=True, keys=True, floors=False)
            _run(rep, wrappers.noninterference, ex, f"{cls}._inference", ex.cache.get((f"{cls}._inference", "pent"), []))
        cls = _class_of(table, ("system-z", None))
        if cls:
            site, paths = sysz.inference_entry(rep, ex, cls)
            _run(rep, wrappers.noninterference, ex, site, paths)
        for key, name, lex in ((("system-w", False), "rc2", False), (("system-w", True), "z3", False),
                               (("lex_inf", False), "rc2", True), (("lex_inf", True), "z3", True)):
            cls = _class_of(table, key)
            if cls:
                be = mcsops.Backend(name, cls, lex=lex)
                res_ = _run(rep, mcsops.w_entry, ex, be, strict=True, extended=True, prefix="LEX" if lex else "W", keys=True, n_objects=2 if lex else 1)
                if res_:
                    _run(rep, wrappers.noninterference, ex, res_[0], res_[1])
                if name == "z3":
                    _run(rep, mcsops.preprocess_flow, ex, be, "LEX" if lex else "W")
                if lex:
                    _run(rep, mcsops.lex_rec, ex, be)
                    _run(rep, mcsops.lex_ties, ex, be)
                else:
                    _run(rep, mcsops.w_rec, ex, be)
        cls = _class_of(table, ("c-inference", None))
        if cls:
            _run(rep, cinf.key_discipline, ex, cls)
            _run(rep, cinf.encoding_relation, ex, cls)
            _run(rep, cinf.query_names, ex, cls)
            _run(rep, cinf.query_encoding, ex, cls)
            _run(rep, cinf.answer, ex, cls)
            _run(rep, wrappers.noninterference, ex, f"inference/c_inference.py:{cls.rsplit('.', 1)[1]}._inference", ex.cache.get((f"{cls}._inference", "cinf"), []))
        _run(rep, cnf.constants_handling, ex)
        _run(rep, mcsops.object_identity, ex)
    finally:
        rep.only = None
    # equivalent formulas have different clause counts, equal bases have different keys: the family of correction sets must be
    # the inclusion-minimal ones whatever order and cost the solver reports them in, and nothing may stick to a key from one
    # base to the next (the shared default of `ignore`)
    rep.only = {"MCS.minimal", "MCS.loop", "PART.partition", "PART.context", "CNF.roles"}
    try:
        _run(rep, enum.minimal, ex)
        _run(rep, enum.shared_defaults, ex)
        # the enumeration may not stop on the *cost* of a model (the number of clauses an equivalent formula happens to compile
        # to), and the CNFs a query is answered with are those of this query's formulas, not of one that prints alike
        _run(rep, enum.loop, ex)
        _run(rep, cnf.roles, ex)
        _run(rep, part.evaluated, ex, "inference.consistency_sat.consistency_indices", "key")
        _run(rep, part.evaluated, ex, "inference.consistency_sat.consistency", "cond")
        _run(rep, part.evaluated_duplicates, ex, "inference.consistency_sat.consistency_indices", "key")
        _run(rep, part.evaluated_duplicates, ex, "inference.consistency_sat.consistency", "cond")
        _run(rep, part.evaluated_second_call, ex, "inference.consistency_sat.consistency_indices", "key")
        _run(rep, part.evaluated_second_call, ex, "inference.consistency_sat.consistency", "cond")
    finally:
        rep.only = None


def _operator_inference_paths(rep, ex, table, only=None):
    """(site, abstract paths) of `_inference` and of the recursive cores of every registered operator."""
    cls = _class_of(table, ("p-entailment", None)) if only is None or "p-entailment" in only else None
    if cls:
        _run(rep, pent.check, ex, cls, strict=True, extended=True, floors=False)
        yield f"inference/p_entailment.py:{cls.rsplit('.', 1)[1]}._inference", ex.cache.get((f"{cls}._inference", "pent"), [])
    cls = _class_of(table, ("system-z", None)) if only is None or "system-z" in only else None
    if cls:
        yield sysz.inference_entry(rep, ex, cls)
    for key, name, lex in ((("system-w", False), "rc2", False), (("system-w", True), "z3", False),
                           (("lex_inf", False), "rc2", True), (("lex_inf", True), "z3", True)):
        cls = _class_of(table, key) if only is None or key[0] in only else None
        if cls:
            be = mcsops.Backend(name, cls, lex=lex)
            site, paths = mcsops.w_entry(rep, ex, be, strict=True, extended=True, prefix="LEX" if lex else "W", n_objects=2 if lex else 1)
            yield site, paths
            be.discover_query_slots(ex)
            rsite = f"{site.rsplit('.', 1)[0]}._rec_inference"
            yield rsite, ex.run(f"{cls}._rec_inference", be.rec_setup(), summaries=be.summaries(), key=f"{'lexrec' if lex else 'wrec'}-{name}", hooks=be.hooks())
    cls = _class_of(table, ("c-inference", None)) if only is None or "c-inference" in only else None
    if cls:
        _run(rep, cinf.answer, ex, cls)
        yield f"inference/c_inference.py:{cls.rsplit('.', 1)[1]}._inference", ex.cache.get((f"{cls}._inference", "cinf"), [])



def _per_query_isolation(rep, ex, table, only=None):
    """An answer depends on the base and on the query asked, not on the queries asked before it on the same manager:
    nothing an operator asserts for one query stays in a constraint object the next query finds (STATE.solver-per-query),
    and the conditionals of a base are told apart by what they are, object by object (OBJ.identity)."""
    from .front import AnalysisError
    prev = rep.only
    rep.only = {"STATE.solver-per-query"}
    try:
        for site, paths in _operator_inference_paths(rep, ex, table, only=only):
            _run(rep, wrappers.solver_per_query, site, paths)
    except AnalysisError as e:
        # (an operator entry this group cannot read: recorded, the other groups stand on their own evidence)
        rep.analysis_errors.append(str(e))
    finally:
        rep.only = prev
    rep.only = {"OBJ.identity"}
    try:
        _run(rep, mcsops.object_identity, ex)
    finally:
        rep.only = prev


def C13(rep, prog, tier):
    rep.explanation = ("C13: STATE.lifetime (operator attributes vs. epistemic state), ROWS.key and PAR.key (provenance of the keys "
                       "under which per-query results are stored and read), PAR.join (typestate of worker processes), "
                       "QUERYSLOT.def-before-use, CACHE.readonly, PREPROC.once. Scheduling and fork semantics are not decided")
    ex = Explorer(prog, rep)
    table = wrappers.dispatch(rep, ex, report=False)
    _run(rep, wrappers.state_lifetime, ex)
    _run(rep, wrappers.init_preserves_state, ex)
    _run(rep, wrappers.rows, ex)
    _run(rep, wrappers.refuse_manager, ex, rules=("ROWS.key",))
    _run(rep, parser_rules.queries_forward, ex)  # (the keys the rows carry are those of the container the caller built)
    # what a query is translated to depends on that query only (no memo across queries keyed by a presentation)
    rep.only = {"CNF.roles", "CNF.pool"}  # (and the id pool is never rewound between queries)
    try:
        _run(rep, cnf.roles, ex)
    finally:
        rep.only = None
    _run(rep, wrappers.refuse, ex, rules=("PREPROC.once",))
    rep.only = {"STATE.solver-per-query"}
    try:
        for site, paths in _operator_inference_paths(rep, ex, table):
            _run(rep, wrappers.solver_per_query, site, paths)
    except _AnalysisError as e:
        rep.analysis_errors.append(str(e))
    finally:
        rep.only = None
    keep = {"CACHE.readonly", "QUERYSLOT.def-before-use"}
    rep.only = keep
    try:
        cls = _class_of(table, ("p-entailment", None))
        if cls:
            _run(rep, pent.check, ex, cls, strict=True, extended=True, floors=False)
            _run(rep, wrappers.cache_readonly, ex, f"inference/p_entailment.py:{cls.rsplit('.', 1)[1]}._inference", ex.cache.get((f"{cls}._inference", "pent"), []))
        cls = _class_of(table, ("system-z", None))
        if cls:
            site, paths = sysz.inference_entry(rep, ex, cls)
            _run(rep, wrappers.cache_readonly, ex, site, paths)
        for key, name, lex in ((("system-w", False), "rc2", False), (("system-w", True), "z3", False),
                               (("lex_inf", False), "rc2", True), (("lex_inf", True), "z3", True)):
            cls = _class_of(table, key)
            if cls:
                be = mcsops.Backend(name, cls, lex=lex)
                res_ = _run(rep, mcsops.w_entry, ex, be, strict=True, extended=True, prefix="LEX" if lex else "W", n_objects=2 if lex else 1)
                if not res_:
                    continue
                site, paths = res_
                _run(rep, wrappers.cache_readonly, ex, site, paths)
                be.discover_query_slots(ex)
                rsite = f"{site.rsplit('.', 1)[0]}._rec_inference"
                rpaths = ex.run(f"{cls}._rec_inference", be.rec_setup(), summaries=be.summaries(), key=f"{'lexrec' if lex else 'wrec'}-{name}", hooks=be.hooks())
                _run(rep, wrappers.cache_readonly, ex, rsite, rpaths)
        cls = _class_of(table, ("c-inference", None))
        if cls:
            _run(rep, cinf.answer, ex, cls)
            _run(rep, wrappers.cache_readonly, ex, f"inference/c_inference.py:{cls.rsplit('.', 1)[1]}._inference", ex.cache.get((f"{cls}._inference", "cinf"), []))
            _run(rep, cinf.query_encoding, ex, cls)
            _run(rep, wrappers.cache_readonly, ex, f"inference/c_inference.py:{cls.rsplit('.', 1)[1]}.compile_and_encode_query", ex.cache.get((f"{cls}.compile_and_encode_query", "caeq"), []))
        rep.only = {"CACHE.readonly", "MCS.block"}
        _run(rep, enum.block, ex)
    finally:
        rep.only = None


def C14(rep, prog, tier):
    rep.explanation = ("C14: CHECK.three-way (a z3 check() result reaches model() only when it is sat; `unknown` ends in a flagged "
                       "expiry) on the optimizer loops of both z3 operators, TIMEOUT.flow (no handler between the raise sites and the "
                       "wrappers swallows TimeoutError), TIMEOUT.row (handler rows are (key, False, True, budget)), TIMEOUT.guarded-raise, "
                       "PREPROC.once. Decides how an expiry or an `unknown` is routed; when it happens is not decidable statically")
    ex = Explorer(prog, rep)
    table = wrappers.dispatch(rep, ex, report=False)
    for key in (("system-w", True), ("lex_inf", True)):
        cls = _class_of(table, key)
        if cls:
            _run(rep, enum.z3mcs, ex, cls)
            _run(rep, enum.budgeted_checks, ex, mcsops.Backend("z3", cls, lex=(key[0] == "lex_inf")))
    _run(rep, wrappers.timeout_flow, ex)
    _run(rep, wrappers.z3_timeout_type, ex)
    _run(rep, wrappers.rows, ex, which=("single", "worker", "multi"), rules=("TIMEOUT.row", "TIMEOUT.per-query"))
    _run(rep, wrappers.refuse, ex, rules=("TIMEOUT.row", "TIMEOUT.flow", "PREPROC.once"))
    _run(rep, wrappers.refuse_manager, ex, rules=("TIMEOUT.row",))
    _run(rep, wrappers.preprocessing_timeout_rows, ex)
    _run(rep, wrappers.rows, ex, which=("manager",), rules=("ROWS.columns",))
    _run(rep, enum.loop, ex, rules=("TIMEOUT.guarded-raise",))
    rep.only = {"STATE.solver-per-query"}
    try:
        for site, paths in _operator_inference_paths(rep, ex, table):
            _run(rep, wrappers.solver_per_query, site, paths)
    except _AnalysisError as e:
        rep.analysis_errors.append(str(e))
    finally:
        rep.only = None
    # an expiry seen by an operator between two pieces of work ends the query flagged; it never makes the operator skip the
    # rest and answer from what it has (c-inference: both families of the query's correction sets, or TimeoutError)
    rep.only = {"C.query-edges"}
    try:
        cls = _class_of(table, ("c-inference", None))
        if cls:
            _run(rep, cinf.query_encoding, ex, cls)
    finally:
        rep.only = None
    # the operators that look at the deadline themselves (z3 back-ends): having seen it expired they may go on without a
    # solver timeout or raise, but an answer given in front of the layer recursion must still follow from the query alone
    rep.only = {"W.start", "LEX.start"}
    try:
        for key, lex in ((("system-w", True), False), (("lex_inf", True), True)):
            cls = _class_of(table, key)
            if cls:
                be = mcsops.Backend("z3", cls, lex=lex)
                _run(rep, mcsops.w_entry, ex, be, strict=True, extended=True, prefix="LEX" if lex else "W", n_objects=2 if lex else 1)
    finally:
        rep.only = None


def C15(rep, prog, tier):
    rep.explanation = ("C15: CNF.roles/literals/constants/pool on the Tseitin step; MCS.violated/block/minimal/loop on the rc2 "
                       "enumeration (remove_supersets decided on three abstract sets with ⊆ uninterpreted); decides the shape of the "
                       "encoding and of the enumeration, not z3's tactic or RC2")
    ex = Explorer(prog, rep)
    _run(rep, cnf.roles, ex)
    _run(rep, cnf.literals, ex)
    _run(rep, cnf.constants_handling, ex)
    _run(rep, cnf.pool, ex)
    _run(rep, enum.violated, ex)
    _run(rep, enum.block, ex)
    _run(rep, enum.minimal, ex)
    _run(rep, enum.loop, ex)
    _run(rep, enum.shared_defaults, ex)


def C05(rep, prog, tier):
    rep.explanation = ("C05: c-inference: roles of the compiled minima (which correction sets go where), the constraint relations "
                       "as linear forms (η_i − mv_i + mf_i > 0, minima encoding, query constraint, answer polarity), query edge cases, the "
                       "guard against an empty falsifying minimum, the early exit, index discipline of the η/mv/mf name families")
    ex = Explorer(prog, rep)
    table = wrappers.dispatch(rep, ex)
    cls = _class_of(table, ("c-inference", None))
    if cls:
        _run(rep, cinf.minima_roles, ex, cls)
        _run(rep, cinf.query_encoding, ex, cls)
        _run(rep, cinf.minima_encoding, ex)
        _run(rep, cinf.summation, ex)
        _run(rep, cinf.encoding_relation, ex, cls)
        _run(rep, cinf.answer, ex, cls)
        _run(rep, cinf.key_discipline, ex, cls)
        _run(rep, cinf.query_names, ex, cls)
        _run(rep, cinf.preprocess_flow, ex, cls)
        _run(rep, wrappers.init_preserves_state, ex, only_cls=cls)
    _run(rep, wrappers.shortcut_guard, ex)
    _run(rep, wrappers.shortcut_dominance, ex)
    _encoding_and_enumeration(rep, ex)
    _answers_reach_the_caller(rep, ex)
    _per_query_isolation(rep, ex, table, only=("c-inference",))


def C16(rep, prog, tier):
    rep.explanation = ("C16: the System Z ranking object: ZRANK.recursion (both copies of the rank recursion, start, layer items, "
                       "decision table), WORLD.literals, ZRANK.cache, ZRANK.pure, FACT.shape (both builders), partition mode, "
                       "ZRANK.refuse; PART.* of `consistency`. Equality with the operator's answers is not decided (two conforming "
                       "implementations of one definition)")
    ex = Explorer(prog, rep)
    _run(rep, preocf.world_literals, ex)
    for cls in (preocf.ZP, preocf.PO):
        _run(rep, preocf.zrank_recursion, ex, cls)
    _run(rep, preocf.rank_cache, ex, preocf.ZP, "z_part2ocf")
    _run(rep, preocf.all_ranks, ex)
    _run(rep, preocf.zrank_init, ex)
    _run(rep, preocf.fact_builder_sibling, ex)
    # acceptance of a conditional by the ranking object goes through formula ranks
    _run(rep, preocf.memo_audit, ex, "RANK.min", kinds=("text",))
    _run(rep, preocf.rank_min, ex)
    _run(rep, preocf.accept_decision, ex)
    _run(rep, part.check_all, ex, only=("inference.consistency_sat.consistency",))
    _run(rep, preocf.factory_forwarding, ex, which=("init_system_z",))
    # the refusal carries the diagnostics: their flags are part of what the caller observes
    _run(rep, diag.flags, ex)
    _run(rep, diag.facts_sat, ex)
    _run(rep, preocf.factory_dispatch, ex)


def C17(rep, prog, tier):
    rep.explanation = ("C17 (four clauses): CREP.rank (rank = Σ impacts of the conditionals the world falsifies), index discipline "
                       "between impacts, η names and conditionals, CHECK.three-way and objectives at the constructor, C.relations / "
                       "C.empty-minimum of the constraint system it solves. Pareto minimality, termination of the front enumeration and "
                       "the relation to c-inference are not decided")
    ex = Explorer(prog, rep)
    for cls in (preocf.CR, preocf.PO):
        _run(rep, preocf.crep_rank, ex, cls)
    _run(rep, preocf.rank_cache, ex, preocf.CR, "c_vec2ocf", rule="CREP.cache")
    _run(rep, preocf.all_ranks, ex)
    _run(rep, preocf.crep_init, ex)
    _run(rep, crev.solve, ex)
    _run(rep, crev.front_enumeration, ex)
    _run(rep, preocf.memo_audit, ex, "RANK.min", kinds=("text",))
    _run(rep, preocf.rank_min, ex)
    _run(rep, preocf.accept_decision, ex)
    _run(rep, cinf.encoding_relation, ex)
    _run(rep, cinf.key_discipline, ex)
    _run(rep, cinf.query_names, ex)
    # "every query with a satisfiable antecedent that c-inference answers True is accepted by it": the query side of c-inference
    # (its constraint, its edge cases, the polarity of its answer) is part of this property as well
    _run(rep, cinf.query_encoding, ex)
    _run(rep, cinf.answer, ex)
    _run(rep, cinf.minima_encoding, ex)
    _run(rep, cinf.summation, ex)
    _run(rep, cinf.minima_roles, ex)  # (which correction sets enter which minimum)
    _run(rep, preocf.world_literals, ex)
    _run(rep, preocf.factory_forwarding, ex, which=("init_random_min_c_rep",))
    _run(rep, preocf.impacts_observe, ex)
    _run(rep, preocf.factory_dispatch, ex)
    _run(rep, crev.front_wiring, ex)
    # the constraint system the impacts solve is built from the minimal correction sets of the CNFs: both are part of it
    _encoding_and_enumeration(rep, ex)


def C18(rep, prog, tier):
    rep.explanation = ("C18: RANK.min (accumulator update table, scope of the satisfaction test), ACCEPT.decision, MARG.bits, "
                       "COND.filter, TPO.order, WORLD.literals on the ranking-function operations")
    ex = Explorer(prog, rep)
    _run(rep, preocf.memo_audit, ex, "RANK.min", kinds=("text",))
    _run(rep, preocf.world_literals, ex)
    _run(rep, preocf.rank_min, ex)
    _run(rep, preocf.accept_decision, ex)
    _run(rep, preocf.marg_bits, ex)
    _run(rep, preocf.cond_filter, ex)
    _run(rep, preocf.tpo_order, ex)
    _run(rep, preocf.factory_forwarding, ex, which=("init_custom",))
    _run(rep, preocf.custom_init, ex)
    _run(rep, preocf.factory_dispatch, ex)


def C20(rep, prog, tier):
    rep.explanation = ("C20 (three clauses): SAVE.restore (typestate with exceptional exits: detached solver state is back on every "
                       "exit of save_ocf), IMPACTS.keys (writer/reader key agreement, size check before assignment), FORMAT.agree "
                       "(decision tables of saver and loader over suffix classes x fmt). Pickling across interpreters and equality of "
                       "continued lazy computation are not decided")
    ex = Explorer(prog, rep)
    _run(rep, preocf.save_restore, ex)
    _run(rep, preocf.pickled_state, ex)
    _run(rep, preocf.impacts_keys, ex)
    _run(rep, preocf.impacts_accept, ex)
    _run(rep, preocf.impacts_factories, ex)
    _run(rep, preocf.format_agree, ex)
    _run(rep, preocf.memo_audit, ex, "STATE.pickled")
    _run(rep, preocf.load_rebuild, ex)
    _run(rep, preocf.save_no_mutation, ex)
    _run(rep, preocf.impacts_observe, ex)


def C10(rep, prog, tier):
    rep.explanation = ("C10: GRAM.precedence / GRAM.tokens / LEX.skip read from CKB.g4 and from the generated parser (and their "
                       "agreement), VISIT.meaning (truth tables of what each visitor method builds), VISIT.keys, REJECT.listeners "
                       "(must-precede), REJECT.eof. The ANTLR runtime and the file-or-string heuristic are not decided")
    ex = Explorer(prog, rep)
    g, lit = parser_rules.grammar_rules(rep, ex)
    _run(rep, parser_rules.generated_parser, ex, lit)
    _run(rep, parser_rules.lexer_atn, ex, g)
    _run(rep, parser_rules.visitor_meaning, ex)
    _run(rep, parser_rules.reject, ex, g)
    _run(rep, parser_rules.fresh_results, ex)
    _run(rep, parser_rules.queries_forward, ex)
    _run(rep, parser_rules.wrapper_chain, ex)


def C06(rep, prog, tier):
    rep.explanation = ("C06: tolerance-partition obligations PART.* on consistency/consistency_indices (scope of every "
                       "satisfiability test, split, balance, terminal decisions, advance, siblings); diagnostics flags; refusal")
    ex = Explorer(prog, rep)
    _run(rep, part.check_all, ex)
    _run(rep, part.check_siblings, ex)
    _run(rep, wrappers.refuse, ex)
    _run(rep, wrappers.refuse_manager, ex, rules=("REFUSE", "PREPROC.once", "TIMEOUT.row", "TIMEOUT.flow"))
    _run(rep, wrappers.init_preserves_state, ex)
    _run(rep, wrappers.manager_init, ex, roles=("belief_base", "weakly"))  # (the state that is refused or accepted is this manager's own, in its mode)
    _run(rep, wrappers.shortcut_dominance, ex)
    _run(rep, diag.flags, ex)
    _run(rep, diag.facts_sat, ex)
    _run(rep, preocf.fact_builder_sibling, ex)


def C19(rep, prog, tier):
    rep.explanation = ("C19 (structural clauses): REV.classify / REV.triple-positions (reference, fast and incremental compilation "
                       "against one specification, under every assignment of the classification tests on two concrete conditionals), "
                       "MASK.literal, REV.incremental (add/remove sequences against a fresh model), REV.one-term, REV.fixed-everywhere, "
                       "REV.relation, C.empty-minimum, CHECK.three-way, MODEL.extract, REV.entry. Existence and Pareto minimality of "
                       "the returned parameters are not decided")
    ex = Explorer(prog, rep)
    _run(rep, crev.check_all, ex, tier)
    _run(rep, cinf.minima_encoding, ex)


CHECKS = {"C19": C19, "C01": C01, "C02": C02, "C03": C03, "C04": C04, "C05": C05, "C06": C06, "C07": C07, "C09": C09, "C10": C10, "C11": C11, "C12": C12, "C13": C13, "C14": C14, "C16": C16, "C17": C17, "C18": C18, "C20": C20, "C15": C15}
