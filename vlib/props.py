"""Property -> rule groups."""
from __future__ import annotations

from .harness import Explorer
from .rules import part


def C06(rep, prog, tier):
    rep.explanation = ("C06: tolerance-partition obligations PART.* on consistency/consistency_indices (scope of every "
                       "satisfiability test, split, balance, terminal decisions, advance, siblings); diagnostics flags; refusal")
    ex = Explorer(prog, rep)
    part.check_all(rep, ex)
    part.check_siblings(rep, ex)


CHECKS = {"C06": C06}
