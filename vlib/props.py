"""Property -> rule groups."""
from __future__ import annotations

from .harness import Explorer
from .rules import part, wrappers, pent, sysz, mcsops, cnf, enum, cinf, preocf
from .rules import parser as parser_rules
from .rules import diag
from .rules import crev


def _class_of(table, key):
    """Class dispatched for an operator row; None when the DISPATCH obligation for that row was refuted (the
    operator rules then have nothing sound to run on, and the dispatch violation is the report)."""
    return table.get(key)


def C01(rep, prog, tier):
    rep.explanation = ("C01: negation/polarity/mode of PEntailment._inference, the shared short cut (guard by satisfiability "
                       "patterns, dominance by who-may-call), the dispatch table, and the tolerance-partition obligations PART.* of "
                       "`consistency`; decides the code's shape, not the Goldszmidt-Pearl theorem or the SAT solver")
    ex = Explorer(prog, rep)
    table = wrappers.dispatch(rep, ex)
    cls = _class_of(table, ("p-entailment", None))
    if cls:
        pent.check(rep, ex, cls, strict=True, extended=False, keys=True)
    wrappers.shortcut_guard(rep, ex)
    wrappers.shortcut_dominance(rep, ex)
    part.check_all(rep, ex, only=("inference.consistency_sat.consistency",))
    _answers_reach_the_caller(rep, ex)


def _answers_reach_the_caller(rep, ex):
    """An operator's answer is observed through single_inference / multi_inference and the manager's report: they must
    hand every query its own answer, asked in the mode of the state (ROWS.key, ROWS.columns, PAR.key, TIMEOUT.per-query:
    the operator is called with the query, the state's mode and this query's deadline in their own roles)."""
    wrappers.rows(rep, ex, which=("single", "worker", "multi", "manager"), rules=("ROWS.key", "ROWS.columns", "TIMEOUT.row", "TIMEOUT.per-query", "PAR.key"))
    wrappers.refuse_manager(rep, ex, rules=("ROWS.key",))


def _encoding_and_enumeration(rep, ex):
    """The summaries the MaxSAT-based operators are analysed through (CNF of a conditional's formulas, family of
    inclusion-minimal correction sets) are discharged in the same check."""
    cnf.roles(rep, ex)
    cnf.literals(rep, ex)
    cnf.constants_handling(rep, ex)
    enum.violated(rep, ex)
    enum.block(rep, ex)
    enum.minimal(rep, ex)
    enum.loop(rep, ex)


def C02(rep, prog, tier):
    rep.explanation = ("C02: System Z: partition flow from preprocessing, layer assertions / tests / decision table of the "
                       "descending recursion, strict start index, shared short cut; PART.* of `consistency`")
    ex = Explorer(prog, rep)
    table = wrappers.dispatch(rep, ex)
    cls = _class_of(table, ("system-z", None))
    if cls:
        sysz.check_partition_flow_plain(rep, ex, cls, "cond")
        sysz.rec(rep, ex, cls)
        sysz.entry_z(rep, ex, cls, strict=True, extended=False)
    wrappers.shortcut_guard(rep, ex)
    wrappers.shortcut_dominance(rep, ex)
    part.check_all(rep, ex, only=("inference.consistency_sat.consistency",))
    _answers_reach_the_caller(rep, ex)


def C03(rep, prog, tier):
    rep.explanation = ("C03: System W, both back-ends: soft/hard items of the two minimal-correction-set computations, the "
                       "subset test (evaluated on all small families), the tie recursion and its constraints, start index")
    ex = Explorer(prog, rep)
    table = wrappers.dispatch(rep, ex)
    for key, name in ((("system-w", False), "rc2"), (("system-w", True), "z3")):
        cls = _class_of(table, key)
        if cls:
            be = mcsops.Backend(name, cls, lex=False)
            mcsops.preprocess_flow(rep, ex, be, "W")
            mcsops.w_rec(rep, ex, be)
            mcsops.w_entry(rep, ex, be, strict=True, extended=False)
            if name == "z3":
                enum.z3mcs(rep, ex, cls)
    wrappers.shortcut_guard(rep, ex)
    wrappers.shortcut_dominance(rep, ex)
    part.check_all(rep, ex)
    _encoding_and_enumeration(rep, ex)
    _answers_reach_the_caller(rep, ex)


def C04(rep, prog, tier):
    rep.explanation = ("C04: lexicographic inference, both back-ends: soft/hard items, strict short cuts, cardinality decision "
                       "table (evaluated over all small cardinalities), tie quantifier by two-witness instantiation, tie constraints")
    ex = Explorer(prog, rep)
    table = wrappers.dispatch(rep, ex)
    for key, name in ((("lex_inf", False), "rc2"), (("lex_inf", True), "z3")):
        cls = _class_of(table, key)
        if cls:
            be = mcsops.Backend(name, cls, lex=True)
            mcsops.preprocess_flow(rep, ex, be, "LEX")
            mcsops.lex_rec(rep, ex, be)
            mcsops.lex_ties(rep, ex, be)
            mcsops.w_entry(rep, ex, be, strict=True, extended=False, prefix="LEX", n_objects=2)
            mcsops.lex_strict_shortcuts(rep, ex, be)
            if name == "z3":
                enum.z3mcs(rep, ex, cls)
    wrappers.shortcut_guard(rep, ex)
    wrappers.shortcut_dominance(rep, ex)
    part.check_all(rep, ex)
    _encoding_and_enumeration(rep, ex)
    _answers_reach_the_caller(rep, ex)


def C07(rep, prog, tier):
    rep.explanation = ("C07: the extended branch of every operator: EXT.inf-hard (infinity layer's material counterparts are hard "
                       "constraints of the object handed to the recursion), EXT.vacuity (guards compared over satisfiability patterns), "
                       "EXT.start-total (start index len(P)-2 guarded against the partition that is the infinity layer alone), EXT.pinf; "
                       "siblings: the five implementations discharge one table")
    ex = Explorer(prog, rep)
    table = wrappers.dispatch(rep, ex)
    cls = _class_of(table, ("p-entailment", None))
    if cls:
        pent.check(rep, ex, cls, strict=False, extended=True)
    cls = _class_of(table, ("system-z", None))
    if cls:
        sysz.check_partition_flow_plain(rep, ex, cls, "cond")
        sysz.rec(rep, ex, cls)
        sysz.entry_z(rep, ex, cls, strict=False, extended=True)
    for key, name, lex in ((("system-w", False), "rc2", False), (("system-w", True), "z3", False),
                           (("lex_inf", False), "rc2", True), (("lex_inf", True), "z3", True)):
        cls = _class_of(table, key)
        if cls:
            be = mcsops.Backend(name, cls, lex=lex)
            # the infinity layer the extended branch works with is the last layer of the partition preprocessing stored
            mcsops.preprocess_flow(rep, ex, be, "LEX" if lex else "W")
            mcsops.w_entry(rep, ex, be, strict=False, extended=True, prefix="LEX" if lex else "W", n_objects=2 if lex else 1)
            # below the infinity layer the extended answer is the recursion's: its obligations are part of "exact"
            if lex:
                mcsops.lex_rec(rep, ex, be)
                mcsops.lex_ties(rep, ex, be)
            else:
                mcsops.w_rec(rep, ex, be)
            if name == "z3":
                enum.z3mcs(rep, ex, cls)
    part.check_all(rep, ex)
    _encoding_and_enumeration(rep, ex)
    wrappers.manager_init(rep, ex, roles=("belief_base", "inference_system", "weakly"))


def _mcs_operators(rep, ex, table, strict=True, extended=True, rec=True):
    for key, name, lex in ((("system-w", False), "rc2", False), (("system-w", True), "z3", False),
                           (("lex_inf", False), "rc2", True), (("lex_inf", True), "z3", True)):
        cls = _class_of(table, key)
        if not cls:
            continue
        be = mcsops.Backend(name, cls, lex=lex)
        pre = "LEX" if lex else "W"
        mcsops.preprocess_flow(rep, ex, be, pre)
        if rec:
            if lex:
                mcsops.lex_rec(rep, ex, be)
                mcsops.lex_ties(rep, ex, be)
                mcsops.lex_strict_shortcuts(rep, ex, be)
            else:
                mcsops.w_rec(rep, ex, be)
        mcsops.w_entry(rep, ex, be, strict=strict, extended=extended, prefix=pre, n_objects=2 if lex else 1)
        if name == "z3":
            enum.z3mcs(rep, ex, cls)


def C11(rep, prog, tier):
    rep.explanation = ("C11: BACKEND.dispatch / engine-neutral, and W.siblings / LEX.siblings / EXT.siblings: the rc2 and z3 "
                       "implementations of System W and of lexicographic inference are brought to one abstract form (hard/soft item "
                       "sets per correction-set computation, decision tables, tie constraints, start index, infinity layer, vacuity, "
                       "enumeration blocking and termination) and must discharge the same obligation table slot by slot; Z3.translate")
    ex = Explorer(prog, rep)
    table = wrappers.dispatch(rep, ex)
    wrappers.backend_dispatch(rep, ex)
    wrappers.manager_init(rep, ex, roles=("belief_base", "inference_system", "smt_solver", "pmaxsat_solver"))
    mcsops.object_identity(rep, ex)
    _mcs_operators(rep, ex, table)
    enum.loop(rep, ex)
    enum.violated(rep, ex)
    enum.block(rep, ex)
    enum.minimal(rep, ex)


def C09(rep, prog, tier):
    rep.explanation = ("C09 (three clauses): D1 reflexivity/supraclassicality through the shared short cut and its dominance; D2 "
                       "(Bottom|A) only for unsatisfiable A: each operator answers False when A∧B has no (feasible) model but A∧¬B has; D3 "
                       "direct inference needs faithful CNFs including constants and a recursion that starts at the top layer (every conditional is asserted at some level). And, Or, cautious monotony, Cut, rational monotony, "
                       "left logical equivalence and right weakening relate answers of different queries and are not decided")
    ex = Explorer(prog, rep)
    table = wrappers.dispatch(rep, ex, report=False)
    keep = {"SHORTCUT.guard", "SHORTCUT.dominance", "Z.decision", "Z.tests", "Z.layer-assert", "W.subset-test", "W.decision", "W.soft/hard",
            "LEX.cardinality", "LEX.strict-shortcuts", "LEX.soft/hard", "CNF.roles", "CNF.literals", "CNF.constants", "C.query-edges",
            "Z.start", "W.start", "LEX.start", "LEX.tie-constraints", "LEX.tie-quantifier", "LEX.balance", "W.balance", "W.ignore", "LEX.ignore",
            # direct inference: every conditional of the base stays in the base the operator reasons about (no key collision),
            # and c-inference's early exit fires only when *no* conditional can be falsified
            "KEY.no-reserved", "C01.negation", "C.selffulfilling", "C.relations"}
    rep.only = keep
    try:
        wrappers.shortcut_guard(rep, ex)
        wrappers.shortcut_dominance(rep, ex)
        cls = _class_of(table, ("p-entailment", None))
        if cls:
            pent.check(rep, ex, cls, strict=True, extended=False, keys=True, floors=False)
        cls = _class_of(table, ("c-inference", None))
        if cls:
            cinf.answer(rep, ex, cls)
        cls = _class_of(table, ("system-z", None))
        if cls:
            sysz.rec(rep, ex, cls)
            sysz.entry_z(rep, ex, cls, strict=True, extended=False)
        for key, name, lex in ((("system-w", False), "rc2", False), (("system-w", True), "z3", False),
                               (("lex_inf", False), "rc2", True), (("lex_inf", True), "z3", True)):
            cls = _class_of(table, key)
            if cls:
                be = mcsops.Backend(name, cls, lex=lex)
                if lex:
                    mcsops.lex_rec(rep, ex, be)
                    mcsops.lex_ties(rep, ex, be)
                    mcsops.lex_strict_shortcuts(rep, ex, be)
                    mcsops.w_entry(rep, ex, be, strict=True, extended=False, prefix="LEX", n_objects=2)
                else:
                    mcsops.w_rec(rep, ex, be)
                    mcsops.w_entry(rep, ex, be, strict=True, extended=False)
        cnf.roles(rep, ex)
        cnf.literals(rep, ex)
        cnf.constants_handling(rep, ex)
    finally:
        rep.only = None


def C12(rep, prog, tier):
    rep.explanation = ("C12 (keys and non-interference): KEY.no-reserved (the query is never stored under a literal key of a mapping "
                       "keyed by the base's keys), KEY.no-positional (no running position indexes a key-indexed mapping; name families "
                       "eta_/mv_/mf_ uniformly qualified), NONINTERF (text, name, signature never reach a decision or an answer). "
                       "Invariance under reordering, renaming and equivalent rewriting is semantic and not decided")
    ex = Explorer(prog, rep)
    table = wrappers.dispatch(rep, ex, report=False)
    keep = {"KEY.no-reserved", "KEY.no-positional", "NONINTERF", "W.query-slot", "LEX.query-slot", "OBJ.identity",
            # what is fixed for one tie must not stay in force for the next one: otherwise the answer depends on the order in
            # which ties are enumerated, i.e. on the listing order of the base
            "LEX.balance", "W.balance", "LEX.tie-constraints", "W.decision",
            # necessary for invariance under reordering / equivalent rewriting: an early exit that looks at all conditionals,
            # constants evaluated instead of named
            "C.selffulfilling", "C.relations", "CNF.constants"}
    rep.only = keep
    try:
        cls = _class_of(table, ("p-entailment", None))
        if cls:
            pent.check(rep, ex, cls, strict=True, extended=True, keys=True, floors=False)
            wrappers.noninterference(rep, ex, f"{cls}._inference", ex.cache.get((f"{cls}._inference", "pent"), []))
        cls = _class_of(table, ("system-z", None))
        if cls:
            site, paths = sysz.inference_entry(rep, ex, cls)
            wrappers.noninterference(rep, ex, site, paths)
        for key, name, lex in ((("system-w", False), "rc2", False), (("system-w", True), "z3", False),
                               (("lex_inf", False), "rc2", True), (("lex_inf", True), "z3", True)):
            cls = _class_of(table, key)
            if cls:
                be = mcsops.Backend(name, cls, lex=lex)
                site, paths = mcsops.w_entry(rep, ex, be, strict=True, extended=True, prefix="LEX" if lex else "W", keys=True, n_objects=2 if lex else 1)
                wrappers.noninterference(rep, ex, site, paths)
                if lex:
                    mcsops.lex_rec(rep, ex, be)
                    mcsops.lex_ties(rep, ex, be)
                else:
                    mcsops.w_rec(rep, ex, be)
        cls = _class_of(table, ("c-inference", None))
        if cls:
            cinf.key_discipline(rep, ex, cls)
            cinf.encoding_relation(rep, ex, cls)
            cinf.query_names(rep, ex, cls)
            cinf.answer(rep, ex, cls)
            wrappers.noninterference(rep, ex, f"inference/c_inference.py:{cls.rsplit('.', 1)[1]}._inference", ex.cache.get((f"{cls}._inference", "cinf"), []))
        cnf.constants_handling(rep, ex)
        mcsops.object_identity(rep, ex)
    finally:
        rep.only = None


def _operator_inference_paths(rep, ex, table):
    """(site, abstract paths) of `_inference` and of the recursive cores of every registered operator."""
    cls = _class_of(table, ("p-entailment", None))
    if cls:
        pent.check(rep, ex, cls, strict=True, extended=True, floors=False)
        yield f"inference/p_entailment.py:{cls.rsplit('.', 1)[1]}._inference", ex.cache.get((f"{cls}._inference", "pent"), [])
    cls = _class_of(table, ("system-z", None))
    if cls:
        yield sysz.inference_entry(rep, ex, cls)
    for key, name, lex in ((("system-w", False), "rc2", False), (("system-w", True), "z3", False),
                           (("lex_inf", False), "rc2", True), (("lex_inf", True), "z3", True)):
        cls = _class_of(table, key)
        if cls:
            be = mcsops.Backend(name, cls, lex=lex)
            site, paths = mcsops.w_entry(rep, ex, be, strict=True, extended=True, prefix="LEX" if lex else "W", n_objects=2 if lex else 1)
            yield site, paths
            be.discover_query_slots(ex)
            rsite = f"{site.rsplit('.', 1)[0]}._rec_inference"
            yield rsite, ex.run(f"{cls}._rec_inference", be.rec_setup(), summaries=be.summaries(), key=f"{'lexrec' if lex else 'wrec'}-{name}", hooks=be.hooks())
    cls = _class_of(table, ("c-inference", None))
    if cls:
        cinf.answer(rep, ex, cls)
        yield f"inference/c_inference.py:{cls.rsplit('.', 1)[1]}._inference", ex.cache.get((f"{cls}._inference", "cinf"), [])


def C13(rep, prog, tier):
    rep.explanation = ("C13: STATE.lifetime (operator attributes vs. epistemic state), ROWS.key and PAR.key (provenance of the keys "
                       "under which per-query results are stored and read), PAR.join (typestate of worker processes), "
                       "QUERYSLOT.def-before-use, CACHE.readonly, PREPROC.once. Scheduling and fork semantics are not decided")
    ex = Explorer(prog, rep)
    table = wrappers.dispatch(rep, ex, report=False)
    wrappers.state_lifetime(rep, ex)
    wrappers.init_preserves_state(rep, ex)
    wrappers.rows(rep, ex)
    wrappers.refuse_manager(rep, ex, rules=("ROWS.key",))
    # what a query is translated to depends on that query only (no memo across queries keyed by a presentation)
    rep.only = {"CNF.roles"}
    try:
        cnf.roles(rep, ex)
    finally:
        rep.only = None
    wrappers.refuse(rep, ex, rules=("PREPROC.once",))
    rep.only = {"STATE.solver-per-query"}
    try:
        for site, paths in _operator_inference_paths(rep, ex, table):
            wrappers.solver_per_query(rep, site, paths)
    finally:
        rep.only = None
    keep = {"CACHE.readonly", "QUERYSLOT.def-before-use"}
    rep.only = keep
    try:
        cls = _class_of(table, ("p-entailment", None))
        if cls:
            pent.check(rep, ex, cls, strict=True, extended=True, floors=False)
            wrappers.cache_readonly(rep, ex, f"inference/p_entailment.py:{cls.rsplit('.', 1)[1]}._inference", ex.cache.get((f"{cls}._inference", "pent"), []))
        cls = _class_of(table, ("system-z", None))
        if cls:
            site, paths = sysz.inference_entry(rep, ex, cls)
            wrappers.cache_readonly(rep, ex, site, paths)
        for key, name, lex in ((("system-w", False), "rc2", False), (("system-w", True), "z3", False),
                               (("lex_inf", False), "rc2", True), (("lex_inf", True), "z3", True)):
            cls = _class_of(table, key)
            if cls:
                be = mcsops.Backend(name, cls, lex=lex)
                site, paths = mcsops.w_entry(rep, ex, be, strict=True, extended=True, prefix="LEX" if lex else "W", n_objects=2 if lex else 1)
                wrappers.cache_readonly(rep, ex, site, paths)
                be.discover_query_slots(ex)
                rsite = f"{site.rsplit('.', 1)[0]}._rec_inference"
                rpaths = ex.run(f"{cls}._rec_inference", be.rec_setup(), summaries=be.summaries(), key=f"{'lexrec' if lex else 'wrec'}-{name}", hooks=be.hooks())
                wrappers.cache_readonly(rep, ex, rsite, rpaths)
        cls = _class_of(table, ("c-inference", None))
        if cls:
            cinf.answer(rep, ex, cls)
            wrappers.cache_readonly(rep, ex, f"inference/c_inference.py:{cls.rsplit('.', 1)[1]}._inference", ex.cache.get((f"{cls}._inference", "cinf"), []))
            cinf.query_encoding(rep, ex, cls)
            wrappers.cache_readonly(rep, ex, f"inference/c_inference.py:{cls.rsplit('.', 1)[1]}.compile_and_encode_query", ex.cache.get((f"{cls}.compile_and_encode_query", "caeq"), []))
        rep.only = {"CACHE.readonly", "MCS.block"}
        enum.block(rep, ex)
    finally:
        rep.only = None


def C14(rep, prog, tier):
    rep.explanation = ("C14: CHECK.three-way (a z3 check() result reaches model() only when it is sat; `unknown` ends in a flagged "
                       "expiry) on the optimizer loops of both z3 operators, TIMEOUT.flow (no handler between the raise sites and the "
                       "wrappers swallows TimeoutError), TIMEOUT.row (handler rows are (key, False, True, budget)), TIMEOUT.guarded-raise, "
                       "PREPROC.once. Decides how an expiry or an `unknown` is routed; when it happens is not decidable statically")
    ex = Explorer(prog, rep)
    table = wrappers.dispatch(rep, ex, report=False)
    for key in (("system-w", True), ("lex_inf", True)):
        cls = _class_of(table, key)
        if cls:
            enum.z3mcs(rep, ex, cls)
    wrappers.timeout_flow(rep, ex)
    wrappers.rows(rep, ex, which=("single", "worker", "multi"), rules=("TIMEOUT.row", "TIMEOUT.per-query"))
    wrappers.refuse(rep, ex, rules=("TIMEOUT.row", "TIMEOUT.flow", "PREPROC.once"))
    wrappers.refuse_manager(rep, ex, rules=("TIMEOUT.row",))
    wrappers.preprocessing_timeout_rows(rep, ex)
    wrappers.rows(rep, ex, which=("manager",), rules=("ROWS.columns",))
    enum.loop(rep, ex, rules=("TIMEOUT.guarded-raise",))
    rep.only = {"STATE.solver-per-query"}
    try:
        for site, paths in _operator_inference_paths(rep, ex, table):
            wrappers.solver_per_query(rep, site, paths)
    finally:
        rep.only = None
    # the operators that look at the deadline themselves (z3 back-ends): having seen it expired they may go on without a
    # solver timeout or raise, but an answer given in front of the layer recursion must still follow from the query alone
    rep.only = {"W.start", "LEX.start"}
    try:
        for key, lex in ((("system-w", True), False), (("lex_inf", True), True)):
            cls = _class_of(table, key)
            if cls:
                be = mcsops.Backend("z3", cls, lex=lex)
                mcsops.w_entry(rep, ex, be, strict=True, extended=True, prefix="LEX" if lex else "W", n_objects=2 if lex else 1)
    finally:
        rep.only = None


def C15(rep, prog, tier):
    rep.explanation = ("C15: CNF.roles/literals/constants/pool on the Tseitin step; MCS.violated/block/minimal/loop on the rc2 "
                       "enumeration (remove_supersets decided on three abstract sets with ⊆ uninterpreted); decides the shape of the "
                       "encoding and of the enumeration, not z3's tactic or RC2")
    ex = Explorer(prog, rep)
    cnf.roles(rep, ex)
    cnf.literals(rep, ex)
    cnf.constants_handling(rep, ex)
    cnf.pool(rep, ex)
    enum.violated(rep, ex)
    enum.block(rep, ex)
    enum.minimal(rep, ex)
    enum.loop(rep, ex)


def C05(rep, prog, tier):
    rep.explanation = ("C05: c-inference: roles of the compiled minima (which correction sets go where), the constraint relations "
                       "as linear forms (η_i − mv_i + mf_i > 0, minima encoding, query constraint, answer polarity), query edge cases, the "
                       "guard against an empty falsifying minimum, the early exit, index discipline of the η/mv/mf name families")
    ex = Explorer(prog, rep)
    table = wrappers.dispatch(rep, ex)
    cls = _class_of(table, ("c-inference", None))
    if cls:
        cinf.minima_roles(rep, ex, cls)
        cinf.query_encoding(rep, ex, cls)
        cinf.minima_encoding(rep, ex)
        cinf.summation(rep, ex)
        cinf.encoding_relation(rep, ex, cls)
        cinf.answer(rep, ex, cls)
        cinf.key_discipline(rep, ex, cls)
        cinf.query_names(rep, ex, cls)
        cinf.preprocess_flow(rep, ex, cls)
        wrappers.init_preserves_state(rep, ex, only_cls=cls)
    wrappers.shortcut_guard(rep, ex)
    wrappers.shortcut_dominance(rep, ex)
    _encoding_and_enumeration(rep, ex)
    _answers_reach_the_caller(rep, ex)


def C16(rep, prog, tier):
    rep.explanation = ("C16: the System Z ranking object: ZRANK.recursion (both copies of the rank recursion, start, layer items, "
                       "decision table), WORLD.literals, ZRANK.cache, ZRANK.pure, FACT.shape (both builders), partition mode, "
                       "ZRANK.refuse; PART.* of `consistency`. Equality with the operator's answers is not decided (two conforming "
                       "implementations of one definition)")
    ex = Explorer(prog, rep)
    preocf.world_literals(rep, ex)
    for cls in (preocf.ZP, preocf.PO):
        preocf.zrank_recursion(rep, ex, cls)
    preocf.rank_cache(rep, ex, preocf.ZP, "z_part2ocf")
    preocf.zrank_init(rep, ex)
    preocf.fact_builder_sibling(rep, ex)
    # acceptance of a conditional by the ranking object goes through formula ranks
    preocf.rank_min(rep, ex)
    preocf.accept_decision(rep, ex)
    part.check_all(rep, ex, only=("inference.consistency_sat.consistency",))
    preocf.factory_forwarding(rep, ex, which=("init_system_z",))
    # the refusal carries the diagnostics: their flags are part of what the caller observes
    diag.flags(rep, ex)
    diag.facts_sat(rep, ex)


def C17(rep, prog, tier):
    rep.explanation = ("C17 (four clauses): CREP.rank (rank = Σ impacts of the conditionals the world falsifies), index discipline "
                       "between impacts, η names and conditionals, CHECK.three-way and objectives at the constructor, C.relations / "
                       "C.empty-minimum of the constraint system it solves. Pareto minimality, termination of the front enumeration and "
                       "the relation to c-inference are not decided")
    ex = Explorer(prog, rep)
    for cls in (preocf.CR, preocf.PO):
        preocf.crep_rank(rep, ex, cls)
    preocf.rank_cache(rep, ex, preocf.CR, "c_vec2ocf", rule="CREP.cache")
    preocf.crep_init(rep, ex)
    crev.solve(rep, ex)
    crev.front_enumeration(rep, ex)
    preocf.rank_min(rep, ex)
    preocf.accept_decision(rep, ex)
    cinf.encoding_relation(rep, ex)
    cinf.key_discipline(rep, ex)
    cinf.query_names(rep, ex)
    cinf.minima_encoding(rep, ex)
    cinf.summation(rep, ex)
    preocf.world_literals(rep, ex)
    preocf.factory_forwarding(rep, ex, which=("init_random_min_c_rep",))
    crev.front_wiring(rep, ex)


def C18(rep, prog, tier):
    rep.explanation = ("C18: RANK.min (accumulator update table, scope of the satisfaction test), ACCEPT.decision, MARG.bits, "
                       "COND.filter, TPO.order, WORLD.literals on the ranking-function operations")
    ex = Explorer(prog, rep)
    preocf.world_literals(rep, ex)
    preocf.rank_min(rep, ex)
    preocf.accept_decision(rep, ex)
    preocf.marg_bits(rep, ex)
    preocf.cond_filter(rep, ex)
    preocf.tpo_order(rep, ex)
    preocf.factory_forwarding(rep, ex, which=("init_custom",))


def C20(rep, prog, tier):
    rep.explanation = ("C20 (three clauses): SAVE.restore (typestate with exceptional exits: detached solver state is back on every "
                       "exit of save_ocf), IMPACTS.keys (writer/reader key agreement, size check before assignment), FORMAT.agree "
                       "(decision tables of saver and loader over suffix classes x fmt). Pickling across interpreters and equality of "
                       "continued lazy computation are not decided")
    ex = Explorer(prog, rep)
    preocf.save_restore(rep, ex)
    preocf.pickled_state(rep, ex)
    preocf.impacts_keys(rep, ex)
    preocf.impacts_accept(rep, ex)
    preocf.impacts_factories(rep, ex)
    preocf.format_agree(rep, ex)


def C10(rep, prog, tier):
    rep.explanation = ("C10: GRAM.precedence / GRAM.tokens / LEX.skip read from CKB.g4 and from the generated parser (and their "
                       "agreement), VISIT.meaning (truth tables of what each visitor method builds), VISIT.keys, REJECT.listeners "
                       "(must-precede), REJECT.eof. The ANTLR runtime and the file-or-string heuristic are not decided")
    ex = Explorer(prog, rep)
    g, lit = parser_rules.grammar_rules(rep, ex)
    parser_rules.generated_parser(rep, ex, lit)
    parser_rules.lexer_atn(rep, ex, g)
    parser_rules.visitor_meaning(rep, ex)
    parser_rules.reject(rep, ex, g)


def C06(rep, prog, tier):
    rep.explanation = ("C06: tolerance-partition obligations PART.* on consistency/consistency_indices (scope of every "
                       "satisfiability test, split, balance, terminal decisions, advance, siblings); diagnostics flags; refusal")
    ex = Explorer(prog, rep)
    part.check_all(rep, ex)
    part.check_siblings(rep, ex)
    wrappers.refuse(rep, ex)
    wrappers.refuse_manager(rep, ex, rules=("REFUSE", "PREPROC.once", "TIMEOUT.row", "TIMEOUT.flow"))
    wrappers.init_preserves_state(rep, ex)
    wrappers.shortcut_dominance(rep, ex)
    diag.flags(rep, ex)
    diag.facts_sat(rep, ex)
    preocf.fact_builder_sibling(rep, ex)


def C19(rep, prog, tier):
    rep.explanation = ("C19 (structural clauses): REV.classify / REV.triple-positions (reference, fast and incremental compilation "
                       "against one specification, under every assignment of the classification tests on two concrete conditionals), "
                       "MASK.literal, REV.incremental (add/remove sequences against a fresh model), REV.one-term, REV.fixed-everywhere, "
                       "REV.relation, C.empty-minimum, CHECK.three-way, MODEL.extract, REV.entry. Existence and Pareto minimality of "
                       "the returned parameters are not decided")
    ex = Explorer(prog, rep)
    crev.check_all(rep, ex, tier)
    cinf.minima_encoding(rep, ex)


CHECKS = {"C19": C19, "C01": C01, "C02": C02, "C03": C03, "C04": C04, "C05": C05, "C06": C06, "C07": C07, "C09": C09, "C10": C10, "C11": C11, "C12": C12, "C13": C13, "C14": C14, "C16": C16, "C17": C17, "C18": C18, "C20": C20, "C15": C15}
