"""Entry states, summaries and comparison helpers shared by the rules."""
from __future__ import annotations

from . import formula as F
from .absint import Interp, iter_events, PathResult
from .absvals import (Const, Sym, PredV, FormulaV, LinV, Ref, TupleV, ElemV, FuncV, ClassV, ExtV, HList, HDict, HObj,
                      HSolver, HWcnf, HOpaque, desc, PTRUE, PFALSE, pred_not, show_pred)
from .front import AnalysisError, Program

BB_CLASS = "inference.belief_base.BeliefBase"
COND_CLASS = "inference.conditional.Conditional"
CONDZ3_CLASS = "inference.conditional_z3.Conditional_z3"

KEYS_D = ("members", ("keys", "D"))


# ----------------------------------------------------------------------------------------------
# formulas of the specification
# ----------------------------------------------------------------------------------------------
def A(x):
    return ("atom", x, "A")


def B(x):
    return ("atom", x, "B")


def verification(x):
    return ("and", (A(x), B(x)))


def falsification(x):
    return ("and", (A(x), ("not", B(x))))


def material(x):
    return ("or", (("not", A(x)), B(x)))


QUERY = ("obj", "query")


# ----------------------------------------------------------------------------------------------
# entry objects
# ----------------------------------------------------------------------------------------------
def make_belief_base(I: Interp, name="D"):
    b = I.fresh_var("d")
    conds = I.alloc(HDict(each=[("each", b, ("members", ("keys", name)), PTRUE, ElemV(b, "key"), ElemV(b, "cond"))]))
    bb = I.alloc(HObj(BB_CLASS, {"conditionals": conds, "signature": Sym(("signature", name)), "name": Sym(("bbname", name), "str")}))
    return bb


def make_query(cls=""):
    return ElemV(QUERY, "cond", None, cls)


def make_epistemic_state(I: Interp, bb, system="?", weakly=None, pmaxsat=None, extra=None):
    d = {
        "belief_base": bb,
        "inference_system": Const(system),
        "smt_solver": Const("z3"),
        "pmaxsat_solver": pmaxsat if pmaxsat is not None else Sym(("pmaxsat_solver",), "str"),
        "preprocessing_done": Const(False),
        "preprocessing_timed_out": Const(False),
        "preprocessing_time": Const(0),
        "weakly": weakly if weakly is not None else Sym("weakly", "bool"),
    }
    if extra:
        d.update(extra)
    return I.alloc(HDict(d))


# ----------------------------------------------------------------------------------------------
# summaries (assume/guarantee): functions that have their own obligations are used through the summary
# those obligations establish
# ----------------------------------------------------------------------------------------------
def summary_consistency(kind):
    """consistency / consistency_indices: returns (ordered tolerance partition or False, stats)."""

    def h(I: Interp, fi, args, kwargs, node):
        names = ["ckb", "solver", "weakly"]
        bound = dict(zip(names, args))
        bound.update(kwargs)
        bb = bound.get("ckb")
        weakly = bound.get("weakly", Const(False))
        pid = I.fresh_id("part")
        wdesc = desc(weakly)
        ev = I.log("summary.consistency", node, func=fi.qualname if fi else kind, bb=bb, weakly=weakly, pid=pid, pkind=kind,
                   bbdesc=bb_desc(I, bb))
        part = ElemV(("part", pid), "partition", kind)
        return TupleV((part, Sym(("partstats", pid))))

    return h


def bb_desc(I: Interp, bb):
    """Abstract content of a belief base object's conditionals: descriptor used to tell 'the base' from
    'the base plus the negated query'."""
    if isinstance(bb, Ref):
        o = I.deref(bb)
        if isinstance(o, HObj) and "conditionals" in o.attrs and isinstance(o.attrs["conditionals"], Ref):
            d = I.deref(o.attrs["conditionals"])
            if isinstance(d, HDict):
                ents = tuple(sorted(((repr(k), cond_desc_state(I.state, v)) for k, v in d.entries.items()), key=repr))
                each = tuple((e[2], e[3], desc(e[4]), cond_desc_state(I.state, e[5])) for e in d.each)
                return ("bb", ents, each, d.sym)
    return ("bb?", desc(bb))


def cond_desc(v):
    """Descriptor of a conditional value by meaning: canonical antecedent / consequent."""
    if isinstance(v, ElemV) and v.role == "cond":
        return ("cond", F.canon(A(v.var)), F.canon(B(v.var)))
    return desc(v)


def cond_parts(I: Interp, v):
    """(A, B) formulas of a conditional value (generic element or constructed object), or None."""
    if isinstance(v, ElemV) and v.role == "cond":
        return A(v.var), B(v.var)
    if isinstance(v, Ref):
        o = I.deref(v) if v.oid in I.state.heap else None
        if isinstance(o, HObj) and "antecedence" in o.attrs and "consequence" in o.attrs:
            a, b = o.attrs["antecedence"], o.attrs["consequence"]
            if isinstance(a, FormulaV) and isinstance(b, FormulaV):
                return a.f, b.f
    return None


def cond_parts_state(state, v):
    if isinstance(v, ElemV) and v.role == "cond":
        return A(v.var), B(v.var)
    if isinstance(v, Ref):
        o = state.heap.get(v.oid)
        if isinstance(o, HObj) and "antecedence" in o.attrs and "consequence" in o.attrs:
            a, b = o.attrs["antecedence"], o.attrs["consequence"]
            if isinstance(a, FormulaV) and isinstance(b, FormulaV):
                return a.f, b.f
    return None


# ----------------------------------------------------------------------------------------------
# canonical items (assertion sets)
# ----------------------------------------------------------------------------------------------
def canon_item(item, depth=0):
    k = item[0]
    if k == "f":
        return ("f", F.canon(item[1]))
    if k == "each":
        nb = ("var", f"_q{depth}")
        item = _positional(item)
        m = {item[1]: nb}
        return ("each", F.subst_any(item[2], m), canon_pred(F.subst_any(item[3], m)), canon_item(F.subst_any(item[4], m), depth + 1))
    if k == "soft":
        return ("soft", canon_item(item[1], depth), item[2])
    if k == "w":
        return ("w", canon_item(item[1], depth), item[2])
    return item


def _replace(x, old, new):
    if x == old:
        return new
    if isinstance(x, tuple):
        return tuple(_replace(i, old, new) for i in x)
    if isinstance(x, frozenset):
        return frozenset(_replace(i, old, new) for i in x)
    return x


def _positional(item):
    """`for i in range(len(S))` using S[i] and i says the same as `for x in S` (or enumerate) using x and its position: the
    index form is rewritten to the member form when every use of i is one of these two."""
    _, b, fam, g, body = item
    if not (isinstance(fam, tuple) and fam[:1] == ("members",) and isinstance(fam[1], tuple) and fam[1][:1] == ("range",) and len(fam[1]) == 3 and fam[1][1] == F.lin_const(0)):
        return item
    hi = fam[1][2]
    if not (isinstance(hi, tuple) and len(hi) == 2 and hi[1] == 0 and len(hi[0]) == 1 and hi[0][0][1] == 1 and isinstance(hi[0][0][0], tuple) and hi[0][0][0][:1] == ("len",)):
        return item
    S = hi[0][0][0][1]
    at = ("at", S, ("lin", F.lin_term(("elem", b, "pos"))))
    fresh = ("var", "_pos_")
    g2, body2 = _replace(g, at, fresh), _replace(body, at, fresh)
    pos = ("pos", fresh, ("members", S))
    g2, body2 = _replace(g2, ("elem", b, "pos"), pos), _replace(body2, ("elem", b, "pos"), pos)
    if F.mentions(g2, [b]) or F.mentions(body2, [b]):
        return item
    g2, body2 = F.subst_any(g2, {fresh: b}), F.subst_any(body2, {fresh: b})
    return ("each", b, ("members", S), g2, body2)


def canon_pred(p):
    """Symmetric comparisons are ordered after renaming, so that alpha-equivalent guards compare equal."""
    if isinstance(p, tuple) and p:
        if p[0] == "cmp" and p[1] == "==" and len(p) == 4:
            a, b = sorted([canon_pred(p[2]), canon_pred(p[3])], key=repr)
            return ("cmp", "==", a, b)
        return tuple(canon_pred(x) for x in p)
    return p


def canon_items(items):
    return frozenset(canon_item(i) for i in items)


def flat(frames):
    return tuple(i for fr in frames for i in fr)


def each_item(fam, fn, guard=PTRUE, binder=("var", "_x")):
    return ("each", binder, fam, guard, ("f", fn(binder)))


def show_item(item) -> str:
    k = item[0]
    if k == "f":
        return F.show(item[1]) if item[1][0] != "canon" else show_canon(item[1])
    if k == "each":
        g = "" if item[3] == PTRUE else f" | {show_pred(item[3])}"
        return f"∀{F.show_desc(item[1])}∈{F.show_desc(item[2])}{g}: {show_item(item[4])}"
    if k in ("soft", "w"):
        return f"soft[{item[2]}]({show_item(item[1])})"
    if k == "sym":
        return f"‹{F.show_desc(item[1])}›"
    if k == "clause":
        return f"clause‹{F.show_desc(item[1])}›"
    return repr(item)


def show_canon(c) -> str:
    return f"tt{[F.show(l) for l in c[1]]}={''.join('1' if b else '0' for b in c[2])}"


def show_items(items) -> str:
    return "{" + " ; ".join(sorted(show_item(i) for i in items)) + "}"


def items_equal(a, b) -> bool:
    return canon_items(a) == canon_items(b)


# ----------------------------------------------------------------------------------------------
# list views
# ----------------------------------------------------------------------------------------------
def view(state, v, depth=0):
    """Nested, heap-free description of a value (lists expanded)."""
    if isinstance(v, Ref) and depth < 6:
        o = state.heap.get(v.oid)
        if isinstance(o, HList):
            out = []
            for s in o.segs:
                if s[0] == "one":
                    out.append(("one", view(state, s[1], depth + 1)))
                elif s[0] == "each":
                    out.append(("each", s[1], s[2], s[3], view(state, s[4], depth + 1)))
                elif s[0] == "each*":
                    out.append(("each*", s[1], s[2], s[3], s[4]))
                else:
                    out.append(s)
            return ("list", tuple(out))
        if isinstance(o, HObj):
            p = cond_parts_state(state, v)
            if p is not None:
                return ("condobj", F.canon(p[0]), F.canon(p[1]))
            return ("obj", o.cls)
        return ("ref", type(o).__name__)
    if isinstance(v, TupleV):
        return ("tuple", tuple(view(state, i, depth + 1) for i in v.items))
    return v


def is_each_of(seg, fam, guard=None, role=None):
    """Is a list-view segment 'for each element of fam [with guard]: that element'?"""
    if seg[0] != "each":
        return False
    _, b, f, g, val = seg
    if f != fam:
        return False
    if guard is not None:
        if F.subst_any(g, {b: ("var", "_x")}) != F.subst_any(guard[1], {guard[0]: ("var", "_x")}):
            return False
    if not (isinstance(val, ElemV) and val.var == b):
        return False
    if role is not None and val.role != role:
        return False
    return True


# ----------------------------------------------------------------------------------------------
# exploring with statistics
# ----------------------------------------------------------------------------------------------
class Explorer:
    def __init__(self, prog: Program, report=None, summaries=None, max_depth=6):
        self.prog = prog
        self.report = report
        self.summaries = summaries or {}
        self.max_depth = max_depth
        self.cache = {}

    def run(self, qualname, setup, summaries=None, key=None, no_inline=(), hooks=None, models=None, unroll_while=0):
        from .rules import sysz as _sysz
        _sysz._PROG["prog"] = self.prog
        ck = (qualname, key)
        if key is not None and ck in self.cache:
            return self.cache[ck]
        summ_all = {**self.summaries, **(summaries or {})}
        # a summarised module-level function that moved to another module of the package and is imported where it was: the
        # summary goes with it
        for k_ in list(summ_all):
            if k_ not in self.prog.functions and k_ not in self.prog.classes:
                mod_, _, nm_ = k_.rpartition(".")
                if mod_ in self.prog.modules:
                    tgt_ = self.prog.resolve_name(mod_, nm_)
                    if tgt_ and tgt_ in self.prog.functions and tgt_ not in summ_all:
                        summ_all[tgt_] = summ_all[k_]
        I = Interp(self.prog, models=models, summaries=summ_all, max_depth=self.max_depth)
        I.no_inline |= set(no_inline)
        if hooks:
            I.method_hooks.update(hooks)
        I.unroll_while = unroll_while
        res = I.explore(qualname, setup)
        if self.report is not None:
            self.report.absorb_stats(I)
            # a path of an analysed function that ends in NameError / UnboundLocalError: the function cannot do what any
            # property expects of it on that path (a name that is not bound there)
            seen = set()
            for p in res:
                if p.outcome[0] == "raise" and getattr(p.outcome[1], "cls", None) in ("NameError", "UnboundLocalError"):
                    origin = getattr(p.outcome[1], "origin", None)
                    nm = origin[1] if isinstance(origin, tuple) and len(origin) > 1 else "?"
                    if (qualname, nm) in seen:
                        continue
                    seen.add((qualname, nm))
                    try:
                        site = fn_label(self.prog, qualname)
                    except Exception:  # noqa: BLE001
                        site = qualname
                    self.report.violation("CODE.unbound-name", site, f"name {nm}", "every name a path reads is bound on that path (a parameter, an earlier assignment, an import or a builtin)",
                                          extracted=f"{p.outcome[1].cls}: {nm} is read before anything binds it", required="a bound name", function=site)
        if key is not None:
            self.cache[ck] = res
        return res


def site_of(prog: Program, qualname: str, node=None) -> str:
    fi = prog.function(qualname)
    short = qualname[len(fi.module) + 1:]
    ln = getattr(node, "lineno", fi.node.lineno)
    return f"{fi.path}:{short}:{ln}"


def fn_label(prog: Program, qualname: str) -> str:
    fi = prog.function(qualname)
    return f"{fi.path}:{qualname[len(fi.module) + 1:]}"


def decided(path: PathResult, pred):
    """Value of predicate ``pred`` on a path: True/False, or None when the path never decided it."""
    neg = False
    while pred[0] == "not":
        pred = pred[1]
        neg = not neg
    for k, v in path.decisions:
        if k == pred:
            return (not v) if neg else v
    return None


def early_exits(path: PathResult, fam=None):
    """The generic loops that this path leaves before their family is exhausted: [(loop event, exit case)] (by break,
    return or raise inside the body), optionally only loops over ``fam``."""
    taken = {k[1]: v for k, v in path.decisions if k[0] == "loopexit" and v != "complete"}
    out = []
    for ev, Q in iter_events(path.events):
        if ev.kind == "loop" and ev.id in taken and (fam is None or ev.fam == fam):
            exits = ev.data.get("exits") or []
            if isinstance(taken[ev.id], int) and taken[ev.id] < len(exits):
                out.append((ev, exits[taken[ev.id]]))
    return out


def _formats_formula(d):
    """a text built from a formula: str(f) / repr(f) / a formatted string with a formula among its parts"""
    if isinstance(d, tuple):
        if d[:1] in (("str",), ("repr",)) and len(d) > 1 and isinstance(d[1], tuple) and (d[1][:1] == ("f",) or _formats_formula(d[1])):
            return True
        if d[:1] == ("name",) and len(d) > 1 and isinstance(d[1], tuple) and any(isinstance(x, tuple) and x[:1] == ("f",) for x in d[1]):
            return True
        return any(_formats_formula(x) for x in d)
    return False


def _process_local(d):
    """an identity that means something only inside the process that made it: id(x), hash(x), pysmt's node_id()"""
    if isinstance(d, tuple):
        if d[:1] == ("mcall",) and len(d) > 2 and d[2] in ("node_id", "__hash__"):
            return True
        if d[:1] == ("call",) and len(d) > 1 and d[1] in ("builtins.id", "builtins.hash", "id", "hash"):
            return True
        return any(_process_local(x) for x in d)
    return False


def memo_keys(path: PathResult):
    """Keys under which a path stores into or looks up in a mapping: [(what, key descriptor, node)] for the keys that are a
    formula's text or a process-local identity."""
    out = []
    for ev, Q in iter_events(path.events):
        if ev.kind in ("dict.set", "dict.get.unknown", "dict.get.generic", "dict.get.symbolic", "setitem.unknown", "subscript.unknown"):
            k = ev.data.get("key", ev.data.get("idx"))
            if k is None:
                continue
            d = desc(k)
            if _formats_formula(d):
                out.append(("text", d, ev.node))
            elif _process_local(d):
                out.append(("local-id", d, ev.node))
    for k, v in path.decisions:
        if k[0] == "in" and len(k) > 2:
            if _formats_formula(k[1]):
                out.append(("text", k[1], None))
            elif _process_local(k[1]):
                out.append(("local-id", k[1], None))
    return out


def pred_on_path(path: PathResult, pred):
    """Value of a Boolean combination of predicates under the decisions of a path (None when undetermined)."""
    if not isinstance(pred, tuple) or not pred:
        return None
    if pred[0] == "const":
        return bool(pred[1])
    if pred[0] == "not":
        v = pred_on_path(path, pred[1])
        return None if v is None else not v
    if pred[0] in ("and", "or"):
        vals = [pred_on_path(path, q) for q in pred[1]]
        if pred[0] == "and":
            return False if any(v is False for v in vals) else (True if all(v is True for v in vals) else None)
        return True if any(v is True for v in vals) else (False if all(v is False for v in vals) else None)
    return decided(path, pred)


def value_on_path(path: PathResult, v):
    """A symbolic Boolean that the path's own decisions determine is that constant on this path (`flag = bool(xs)`
    computed before the branch on xs)."""
    if isinstance(v, PredV):
        b = pred_on_path(path, v.p)
        if b is not None:
            return Const(b)
    return v


# ----------------------------------------------------------------------------------------------
# guards and decision tables
# ----------------------------------------------------------------------------------------------
def query_formula(ev):
    """Conjunction of everything in scope at a satisfiability query, as one formula (only plain items)."""
    fs = []
    for it in flat(ev.frames):
        if it[0] == "f":
            fs.append(it[1])
        else:
            return None
    if len(fs) == 1:
        return fs[0]
    return ("and", tuple(fs))


def query_map(paths):
    """qid -> query event, over all paths (ids are stable across paths by construction)."""
    m = {}
    for p in paths:
        for ev, Q in iter_events(p.events):
            if ev.kind == "query":
                m.setdefault((ev.qid, len(Q)), ev)
                m.setdefault(ev.qid, ev)
    return m


def path_query_map(p):
    m = {}
    for ev, Q in iter_events(p.events):
        if ev.kind == "query":
            m[ev.qid] = (ev, Q)
    return m


def sat_literals(path, extra_items=None):
    """The satisfiability decisions of a path as guard literals ('sat', f) / ('not', ('sat', f)); the
    remaining decisions are returned separately."""
    qm = path_query_map(path)
    lits, other = [], []
    for key, val in path.decisions:
        if key[0] == "sat" and key[1] in qm:
            f = query_formula(qm[key[1]][0])
            if f is None:
                other.append((key, val))
                continue
            lits.append(("sat", f) if val else ("not", ("sat", f)))
        elif key[0] in ("simplifies-false", "simplifies-true") and isinstance(key[1], tuple) and key[1][:1] == ("f",):
            # a syntactic simplification: the constant false (true) proves unsatisfiability (validity); anything else
            # proves nothing
            if val:
                lits.append(("not", ("sat", key[1][1] if key[0] == "simplifies-false" else F.mk_not(key[1][1]))))
        else:
            other.append((key, val))
    return lits, other


def pred_to_guard(p, qm):
    """Translate a predicate over ('sat', qid) atoms into a guard over ('sat', formula) atoms."""
    k = p[0]
    if k == "sat":
        ev = qm.get(p[1])
        if ev is None:
            return None
        ev = ev[0] if isinstance(ev, tuple) else ev
        f = query_formula(ev)
        return None if f is None else ("sat", f)
    if k == "not":
        g = pred_to_guard(p[1], qm)
        return None if g is None else ("not", g)
    if k in ("and", "or"):
        gs = [pred_to_guard(q, qm) for q in p[1]]
        return None if any(g is None for g in gs) else (k, tuple(gs))
    if k == "const":
        return p
    return None


def eval_pred(p, env):
    """Evaluate a predicate under an assignment of its atoms (KeyError on an unassigned atom)."""
    k = p[0]
    if k == "const":
        return p[1]
    if k == "not":
        return not eval_pred(p[1], env)
    if k == "and":
        return all(eval_pred(q, env) for q in p[1])
    if k == "or":
        return any(eval_pred(q, env) for q in p[1])
    if k == "check3":
        return env[("check", p[1])] == p[2]
    return env[p]


def pred_atoms(p, acc=None):
    if acc is None:
        acc = []
    k = p[0]
    if k == "const":
        pass
    elif k == "not":
        pred_atoms(p[1], acc)
    elif k in ("and", "or"):
        for q in p[1]:
            pred_atoms(q, acc)
    elif k == "check3":
        if ("check", p[1]) not in acc:
            acc.append(("check", p[1]))
    elif p not in acc:
        acc.append(p)
    return acc


def returned_bool(I_or_none, v):
    """A returned value as a predicate (Const bool / PredV / Sym bool)."""
    if isinstance(v, Const):
        return ("const", bool(v.value))
    if isinstance(v, PredV):
        return v.p
    if isinstance(v, Sym):
        return ("truthy", v.label)
    return ("truthy", desc(v))


def cond_desc_state(state, v):
    p = cond_parts_state(state, v)
    if p is not None:
        return ("cond", F.canon(p[0]), F.canon(p[1]))
    return desc(v)


def delegate(name, raises=("TimeoutError",)):
    """Summary of an abstract hook (`_inference`, `_preprocess_belief_base`): an opaque result, or one of the
    listed exceptions (every outcome is explored)."""

    def h(I, fi, args, kwargs, node):
        cid = I.fresh_id("dlg")
        I.log("delegate", node, func=name, args=tuple(args), kwargs=dict(kwargs), cid=cid)
        if raises:
            out = I.ctx.decide(("delegate-outcome", cid), ("ok",) + tuple(raises))
            if out != "ok":
                from .absint import RaiseSig
                from .absvals import ExcV

                I.log("raise.delegate", node, exc=out, cid=cid)
                raise RaiseSig(ExcV(out, ("delegate", name, cid)), node)
        return Sym(("delegated", name, cid), "bool")

    return h


def truth_rows(path):
    """For a path that returns a Boolean: every (assignment, value) pair, the assignment extending the path's
    decisions over the atoms of the returned predicate that the path left undecided."""
    from itertools import product

    if path.outcome[0] != "return":
        return []
    p = returned_bool(None, path.outcome[1])
    env = {}
    for k, v in path.decisions:
        env[k] = v
    atoms = [a for a in pred_atoms(p) if a not in env]
    rows = []
    for bits in product((True, False), repeat=len(atoms)):
        e = dict(env)
        e.update(zip(atoms, bits))
        try:
            rows.append((e, eval_pred(p, e)))
        except KeyError as ex:
            raise AnalysisError(f"returned predicate mentions an atom that cannot be evaluated: {ex}")
    return rows


# ----------------------------------------------------------------------------------------------
# partitions, recursion summaries, small integer reasoning
# ----------------------------------------------------------------------------------------------
PVAR = ("part", "P")


def P_value(kind="cond", cls=""):
    return ElemV(PVAR, "partition", kind, cls)


def layer_fam(idx_lin, pvar=PVAR):
    return ("members", ("at", pvar, ("lin", idx_lin)))


LEN_P = F.lin_term(("len", PVAR))
LAST = F.lin_add(LEN_P, F.lin_const(-1))
K = F.lin_term("k")


def reccall_summary(I, fi, args, kwargs, node):
    """Summary used when an operator's `_inference` is analysed: the recursive core has its own obligations."""
    # arguments passed by keyword are put in their parameter's position: rules read the call by role, not by spelling
    args, kwargs = list(args), dict(kwargs)
    if fi is not None and kwargs:
        params = [a.arg for a in fi.node.args.posonlyargs + fi.node.args.args]
        for name in params[:len(args)]:
            kwargs.pop(name, None)  # (the engine has already put it in its parameter's position)
        for name in params[len(args):]:
            if name in kwargs:
                args.append(kwargs.pop(name))
            else:
                break
    I.log("reccall", node, func=fi.qualname, args=tuple(args), kwargs=dict(kwargs), snap=I.snapshot_args(args, kwargs))
    return Sym(("rec0", fi.qualname), "bool")


def agg_over_keys(t):
    """Is ``t`` a min/max aggregate term whose operands are exactly the *keys* of the base (one unguarded group over the
    base's conditionals whose value is the key of the element - not the conditional object, not a position)?"""
    if not (isinstance(t, tuple) and len(t) >= 2 and t[0] in ("min", "max") and isinstance(t[1], tuple)):
        return False
    segs = t[1]
    if len(segs) != 1 or segs[0][0] != "each":
        return False
    _, b, fam, g, val = segs[0]
    # (a guard selects some of the keys: still keys - whether the *whole* base is kept is another obligation)
    return fam == KEYS_D and val == ("elem", b, "key")


def lin_facts_hold(path, n, pvar=PVAR):
    """Do the path's decided linear predicates hold when len(P) = n?  (only predicates that mention nothing but
    len(P) are interpreted; others are ignored)"""
    term = ("len", pvar)
    for k, v in path.decisions:
        if k[0] == "cmp" and k[1] in ("==", "<") and isinstance(k[2], tuple) and k[2][0] == "lin" and k[3] == ("c", 0):
            lin = k[2][1]
            if all(t == term for t, _ in lin[0]):
                val = sum(c * n for t, c in lin[0]) + lin[1]
                holds = (val == 0) if k[1] == "==" else (val < 0)
                if holds != v:
                    return False
        elif k == ("empty", pvar):
            if (n == 0) != v:
                return False
    return True


def eval_lin_n(lin, n, pvar=PVAR):
    term = ("len", pvar)
    if not all(t == term for t, _ in lin[0]):
        return None
    return sum(c * n for t, c in lin[0]) + lin[1]


# ----------------------------------------------------------------------------------------------
# CNF slots, optimizer summary, WCNF items
# ----------------------------------------------------------------------------------------------
def cnf_value(f):
    """The integer CNF produced for formula f (meaning established by CNF.* of C15): an abstract clause family."""
    return ElemV(("cnf", f), "cnf")


def cnf_dict(I: Interp, fn, slot0=None):
    b = I.fresh_var("n")
    d = HDict(each=[("each", b, KEYS_D, PTRUE, ElemV(b, "key"), cnf_value(fn(b)))] if fn else [])
    if slot0 is not None:
        d.entries[0] = cnf_value(slot0)
    return I.alloc(d)


def rc2_state(I: Interp, v=False, f=True, nf=True, query_slots=False):
    """The CNF slots of the persistent store as `belief_base_to_cnf(v, f, nf)` leaves them (CNF.roles), optionally with
    the query stored in slot 0 of the v/f dicts."""
    return {
        "pool": I.alloc(HOpaque("IDPool")),
        "v_cnf_dict": cnf_dict(I, verification if v else None, verification(QUERY) if query_slots else None),
        "f_cnf_dict": cnf_dict(I, falsification if f else None, falsification(QUERY) if query_slots else None),
        "nf_cnf_dict": cnf_dict(I, material if nf else None),
    }


def summary_goal2intcnf(I, fi, args, kwargs, node):
    goal = args[1] if len(args) > 1 else kwargs.get("goal")
    f = None
    if isinstance(goal, ElemV) and goal.role == "goal":
        f = goal.var[1] if goal.var[0] == "goal" else None
        if goal.var[0] == "at":
            inner = goal.var[1]
            f = inner[1] if isinstance(inner, tuple) and inner[0] == "goal" else None
    I.log("summary.goal2intcnf", node, goal=goal, formula=f)
    if f is None:
        return Sym(("cnf?", desc(goal)))
    return cnf_value(f)


def summary_query_to_cnf(I, fi, args, kwargs, node):
    q = args[1] if len(args) > 1 else kwargs.get("query")
    p = cond_parts(I, q)
    I.log("summary.query_to_cnf", node, query=q)
    if p is None:
        return Sym(("query_to_cnf", desc(q)))
    a, b = p
    return I.new_list([cnf_value(("and", (a, b))), cnf_value(("and", (a, ("not", b))))])


def summary_create_optimizer(I, fi, args, kwargs, node):
    I.log("summary.create_optimizer", node, state=args[0] if args else None)
    return ElemV(("optimizer", I.fresh_id("opt")), "optimizer")


def hook_mcs(I, v, args, kwargs, node):
    """Optimizer.minimal_correction_subsets(wcnf, ignore, deadline): summary established by MCS.* of C15 - the family
    of inclusion-minimal falsified sets among the non-ignored soft owners under the hard items; empty iff the hard
    items are unsatisfiable; may raise TimeoutError when a deadline is given."""
    names = ["wcnf", "ignore", "deadline"]
    bound = dict(zip(names, args))
    bound.update(kwargs)
    w = bound.get("wcnf")
    cid = I.fresh_id("mcs")
    snap = I.snapshot(w)
    ign = bound.get("ignore")
    ignv = view(I.state, ign) if ign is not None else None
    ign_default = None
    if ign is None:
        # not passed: the parameter's default is what the enumeration ignores (read from the signature)
        import ast as _ast
        fi_ = I.prog.lookup_method("inference.optimizer.OptimizerRC2", "minimal_correction_subsets")
        if fi_ is not None:
            a_ = fi_.node.args
            params_ = a_.posonlyargs + a_.args
            for i_, p_ in enumerate(params_):
                if p_.arg == "ignore":
                    di_ = i_ - (len(params_) - len(a_.defaults))
                    if di_ >= 0:
                        dn_ = a_.defaults[di_]
                        if isinstance(dn_, (_ast.List, _ast.Tuple, _ast.Constant)):
                            ign_default = view(I.state, I.eval(dn_))
                        else:
                            ign_default = ("unread", _ast.unparse(dn_))
    dl = bound.get("deadline", Const(None))
    one_shot = isinstance(ign, Ref) and isinstance(I.state.heap.get(ign.oid), HList) and bool(getattr(I.state.heap[ign.oid], "one_shot", False))
    I.log("mcs", node, cid=cid, wcnf=w, snap=snap, ignore=ign, ignore_view=ignv, deadline=dl, ignore_default=ign_default, ignore_one_shot=one_shot)
    if not (isinstance(dl, Const) and dl.value is None):
        if I.ctx.decide(("mcs-timeout", cid)):
            from .absint import RaiseSig
            from .absvals import ExcV

            I.log("raise.mcs", node, cid=cid)
            raise RaiseSig(ExcV("TimeoutError", ("mcs", cid)), node)
    return ElemV(("mcs", cid), "coll", "set", "key")


RC2_SUMMARIES = {
    "inference.tseitin_transformation.TseitinTransformation.goal2intcnf": summary_goal2intcnf,
    "inference.tseitin_transformation.TseitinTransformation.query_to_cnf": summary_query_to_cnf,
    "inference.optimizer.create_optimizer": summary_create_optimizer,
}
RC2_HOOKS = {("optimizer", "minimal_correction_subsets"): hook_mcs}


def norm_witem(item):
    """Normalise a WCNF item: 'every clause of CNF(f)' becomes the formula f itself."""
    k = item[0]
    if k == "each":
        _, b, fam, g, inner = item
        if fam[0] == "members" and isinstance(fam[1], tuple) and fam[1][:1] == ("cnf",) and g == PTRUE:
            f = fam[1][1]
            if inner == ("clause", b):
                return ("f", f)
            if inner[0] == "w" and inner[1] == ("clause", b):
                return ("soft", ("f", f), inner[2])
        return ("each", b, fam, g, norm_witem(inner))
    return item


def wcnf_view(snap):
    """(hard items, soft items) of a WCNF snapshot, normalised."""
    assert snap[0] == "wcnf"
    return [norm_witem(i) for i in snap[2]], [norm_witem(i) for i in snap[3]]


# ----------------------------------------------------------------------------------------------
# pure Boolean helpers written as search loops
# ----------------------------------------------------------------------------------------------
def paths_to_pred(paths):
    """The Boolean result of a side-effect-free function as one predicate over its decision atoms.  A generic loop left
    by an early exit contributes ∃x∈fam: exit-guard(x); a loop run to completion ∀x∈fam: no exit-guard(x) - the
    quantifier reading of a search loop.  Returns None when a path's outcome or decisions cannot be read this way."""
    alts = []
    for p in paths:
        if p.outcome[0] != "return":
            return None
        rv = returned_bool(None, p.outcome[1])
        if rv[0] == "truthy":
            return None
        loops = {ev.id: ev for ev, Q in iter_events(p.events) if ev.kind == "loop" and not Q}
        conj = []
        for key, val in p.decisions:
            if key[0] == "loopexit":
                lp = loops.get(key[1])
                if lp is None:
                    return None
                b = lp.evar

                def gpred(case):
                    gs = [(k if v else ("not", k)) for k, v in case.guard]
                    return ("and", tuple(gs)) if len(gs) != 1 else gs[0]

                exits = lp.data.get("exits") or []
                for c in exits:
                    if any(ev.kind not in ("return", "leave", "enter") for ev, Q in iter_events(c.events) if ev.kind in ("list.append", "dict.set", "attr.set", "solver.assert", "recurse")):
                        return None
                if val == "complete":
                    for c in exits:
                        conj.append(("forall", b, lp.fam, PTRUE, ("not", gpred(c))))
                else:
                    conj.append(("exists", b, lp.fam, PTRUE, gpred(exits[val])))
            else:
                conj.append(key if val is True else ("not", key) if val is False else None)
                if conj[-1] is None:
                    return None
        conj.append(rv)
        alts.append(("and", tuple(conj)) if len(conj) != 1 else conj[0])
    if not alts:
        return None
    return ("or", tuple(alts)) if len(alts) != 1 else alts[0]


def _subst_markers(x, mapping):
    if isinstance(x, tuple):
        if x in mapping:
            return mapping[x]
        return tuple(_subst_markers(i, mapping) for i in x)
    return x


def bool_helper_summary(ex, qual, roles=("set", "key")):
    """Summary for a module-level Boolean helper over collections: its result as a predicate of the actual arguments
    (quantifier reading of search loops); falls back to inlining when the helper cannot be read that way."""
    cache = {}

    def formal_pred(I0):
        if "p" in cache:
            return cache["p"]
        fi = ex.prog.function(qual)
        n = len(fi.node.args.args)

        def setup(I):
            return [ElemV(("formal", i), "coll", roles[0], roles[1]) for i in range(n)], {}

        try:
            sub = Interp(ex.prog, summaries={k: v for k, v in I0.summaries.items() if k != qual}, max_depth=I0.max_depth)
            paths = sub.explore(qual, setup)
            cache["p"] = paths_to_pred(paths)
        except AnalysisError:
            cache["p"] = None
        return cache["p"]

    def h(I, fi, args, kwargs, node):
        p = formal_pred(I)
        actual = []
        for a in args:
            c = I.as_coll(a) if not isinstance(a, ElemV) else a
            actual.append(c.var if c is not None else None)
        if p is None or kwargs or any(a is None for a in actual):
            return I.call_function(fi, args, kwargs, node, force_inline=True)
        q = _subst_markers(p, {("formal", i): a for i, a in enumerate(actual)})
        I.log("helper", node, func=qual, pred=q)
        if q[0] == "const":
            return Const(q[1])
        return PredV(q)

    return h


def bind_by_role(prog, qual, roles, positional):
    """Arguments for the function `qual` from the roles its parameters play: a parameter whose name is a known role gets that
    value wherever it stands (a method made static, a value now passed down as a parameter, parameters reordered); when a
    name is not a known role the old positional hand-over is used (renamed parameters)."""
    fi = prog.function(qual)
    a = fi.node.args
    params = [x.arg for x in a.posonlyargs + a.args]
    if params and all(n in roles or (n in ("self", "cls") and "self" in roles) for n in params):
        return [roles["self"] if n in ("self", "cls") else roles[n] for n in params], {}
    return list(positional), {}
