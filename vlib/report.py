"""Obligation bookkeeping, evidence files, known findings, exit codes."""
from __future__ import annotations

import json
import os
import sys
import time

VERIF = os.path.dirname(os.path.dirname(os.path.abspath(__file__)))
KNOWN = os.path.join(VERIF, "known_findings.json")

TRUSTED_BASE = [
    "CPython ast (parser of the analysed sources)",
    "semantics tables vlib/models.py for pysmt And/Or/Not/Implies/Iff/Bool/TRUE/FALSE/Symbol/Int/Plus/GE/GT/LE/LT, "
    "Solver.push/pop/add_assertion/solve, is_sat/is_unsat, converter.convert",
    "semantics tables for z3 And/Or/Not/BoolVal/==/Solver/Optimize add/add_soft/push/pop/check/model/set, is_true, "
    "Tactic('tseitin-cnf') preserving satisfiability per assignment of the original atoms",
    "semantics tables for pysat WCNF.append/copy, RC2.compute/cost/add_clause, IDPool.id",
    "ANTLR precedence climbing (generated parser faithfully implements the grammar's precpred levels)",
    "the theorems cited in the property statements (tolerance partition <=> consistency, SZinf/SWinf correctness, "
    "c-inference compilation); solver correctness",
]


class Report:
    def __init__(self, prop: str, tier: str, root: str):
        self.prop = prop
        self.tier = tier
        self.root = root
        self.t0 = time.time()
        self.obligations: list[dict] = []
        self.violations: list[dict] = []
        self.analysis_errors: list[str] = []  # rule groups that could not read the code (recorded; the other groups still run)
        self.known_hits: list[dict] = []
        self.notes: list[str] = []
        self.analysed: dict = {"functions": set(), "paths": 0, "loops": 0, "resolved_calls": 0, "unresolved_calls": 0}
        self.explanation = ""
        self.assumptions: list[str] = []
        self.floors: list[tuple[str, int, int]] = []
        self.selftest: dict | None = None
        self._seen: set = set()
        self._floor_relevant = True
        self.only = None  # when set: only these rules are recorded (a group shared by several properties)
        try:
            with open(KNOWN) as fh:
                self.known = json.load(fh)
        except FileNotFoundError:
            self.known = {"findings": [], "fixed": []}

    # ------------------------------------------------------------------
    def ok(self, rule: str, site: str, slot: str, detail: str = "", extracted: str = ""):
        if self.only is not None and rule not in self.only:
            return
        key = (rule, site, slot, "discharged", detail)
        if key in self._seen:
            return
        self._seen.add(key)
        self.obligations.append({"rule": rule, "site": site, "slot": slot, "status": "discharged", "detail": detail,
                                 "extracted": extracted})

    def violation(self, rule: str, site: str, slot: str, detail: str, extracted: str = "", required: str = "",
                  function: str = ""):
        if self.only is not None and rule not in self.only:
            return
        rec = {"rule": rule, "site": site, "slot": slot, "status": "violated", "detail": detail,
               "extracted": extracted, "required": required, "function": function or ":".join(site.split(":")[:2])}
        key = (rule, site, slot, "violated", extracted)
        if key in self._seen:
            return
        self._seen.add(key)
        # known findings are matched on (property, rule, function, slot) - never on line numbers
        for kf in self.known.get("findings", []):
            if kf.get("property") == self.prop and kf.get("rule") == rule and kf.get("function") == rec["function"] \
                    and kf.get("slot", slot) == slot:
                rec["status"] = "known-finding"
                rec["finding"] = kf.get("id", "")
                self.known_hits.append(rec)
                self.obligations.append(rec)
                return
        self.violations.append(rec)
        self.obligations.append(rec)

    def check(self, cond: bool, rule: str, site: str, slot: str, detail: str, extracted: str = "", required: str = "",
              function: str = ""):
        if cond:
            self.ok(rule, site, slot, detail, extracted)
        else:
            self.violation(rule, site, slot, detail, extracted, required, function)
        return cond

    def floor(self, what: str, found: int, minimum: int):
        """Instance floor: a rule that binds fewer instances than confirmed by hand is analysis-broken."""
        from .front import AnalysisError

        self.floors.append((what, found, minimum))

    def absorb_stats(self, interp):
        st = interp.stats
        self.analysed["functions"] |= set(st["functions"])
        self.analysed["paths"] += st["paths"]
        self.analysed["loops"] += st["loops"]
        self.analysed["resolved_calls"] += st["resolved_calls"]
        self.analysed["unresolved_calls"] += st["unresolved_calls"]

    # ------------------------------------------------------------------
    def finish(self) -> int:
        n_ok = sum(1 for o in self.obligations if o["status"] == "discharged")
        n_all = len(self.obligations)
        for o in self.obligations:
            tag = {"discharged": "ok  ", "violated": "FAIL", "known-finding": "KNWN"}[o["status"]]
            line = f"[{tag}] {self.prop} {o['rule']} {o['site']} [{o['slot']}] {o['detail']}"
            if o["status"] != "discharged":
                line += f" ; extracted: {o.get('extracted', '')} ; required: {o.get('required', '')}"
            print(line)
        for what, found, minimum in self.floors:
            print(f"[floor] {what}: bound {found} (floor {minimum})")
        replay_dir = os.path.join(VERIF, "evidence", "replay")
        code = 0
        by_id = {}
        for kf in self.known_hits:
            by_id.setdefault((kf.get("finding", ""), kf["rule"], kf["function"], kf["slot"]), []).append(kf)
        for (fid, rule, fn, slot), hits in by_id.items():
            print(f"KNOWN-FINDING: property={self.prop} {fid} {rule} at {fn} [{slot}]: {hits[0]['detail']} "
                  f"({len(hits)} instance(s), e.g. {hits[0].get('extracted', '')})")
        if self.analysis_errors and not self.violations:
            # some rule could not read the code and no other rule found a violation: no verdict
            for e in self.analysis_errors[1:]:
                print(f"[analysis-error] {e}")
            print(f"ANALYSIS-ERROR: {self.prop}: {self.analysis_errors[0]}")
            return 2
        for e in self.analysis_errors:
            print(f"[analysis-error] (no verdict from this rule) {e}")
        broken = [(w, f, m) for w, f, m in self.floors if f < m]
        if broken and not self.violations:
            # a rule that bound fewer instances than confirmed by hand would pass vacuously: analysis-broken
            w, f, m = broken[0]
            print(f"ANALYSIS-ERROR: {self.prop}: instance floor not met for {w}: bound {f}, need >= {m}")
            return 2
        if self.violations:
            os.makedirs(replay_dir, exist_ok=True)
            for i, v in enumerate(self.violations, 1):
                path = os.path.join(replay_dir, f"{self.prop}-{v['rule'].replace('/', '_')}-{i}.json")
                with open(path, "w") as fh:
                    json.dump({"property": self.prop, **v, "root": self.root}, fh, indent=1, default=str)
                print(f"{self.prop} {v['rule']} {v['site']} [{v['slot']}]: {v['detail']}; extracted {v['extracted']}; required {v['required']}")
                print(f"VIOLATION property={self.prop} replay={path}")
            code = 1
        if not os.environ.get("VERIF_NO_EVIDENCE"):
            self.write_evidence(n_all, n_ok)
        print(f"{self.prop}: {n_ok}/{n_all} obligations discharged, {len(self.violations)} violation(s), "
              f"{len(self.known_hits)} known finding(s); {len(self.analysed['functions'])} functions, "
              f"{self.analysed['paths']} abstract paths; {time.time() - self.t0:.2f}s")
        return code

    def write_evidence(self, n_all, n_ok):
        samples = []
        seen = set()
        for o in self.obligations:
            key = (o["rule"], o["slot"])
            if key in seen and len(samples) > 40:
                continue
            seen.add(key)
            samples.append({k: o[k] for k in ("rule", "site", "slot", "status", "detail", "extracted") if k in o})
        distinct = len({(o["rule"], o["site"], o["slot"]) for o in self.obligations})
        ev = {
            "property_id": self.prop,
            "tier": self.tier,
            "seed": int(os.environ.get("VERIF_SEED", "0") or 0),
            "level": "other",
            "coverage": {
                "explanation": self.explanation or "static conformance of the code's shape to the obligation table of DESIGN.md section 4",
                "obligations": n_all,
                "discharged": n_ok + len(self.known_hits) * 0,
                "known_findings": len(self.known_hits),
                "evaluations": max(n_all, 1),
                "distinct_nontrivial": max(distinct, 2) if distinct >= 2 else distinct,
                "rule": "one evaluation per rule instance bound to a construct of /repo's working tree; distinct = distinct "
                        "(rule, site, slot); non-trivial = the instance was resolved to an abstract value and compared with the "
                        "obligation table",
                "samples": samples[:60],
                "analysed_functions": sorted(self.analysed["functions"]),
                "abstract_paths": self.analysed["paths"],
                "generic_loops": self.analysed["loops"],
                "resolved_calls": self.analysed["resolved_calls"],
                "unresolved_calls": self.analysed["unresolved_calls"],
                "instance_floors": [{"what": w, "bound": f, "floor": m} for w, f, m in self.floors],
                "checker_cmd": f"/verif/vcheck {self.prop} --tier {self.tier}",
                "trusted_base": TRUSTED_BASE,
                "exhaustive": True,
                "root": self.root,
            },
            "assumptions": self.assumptions or ["see trusted_base"],
            "wall_s": round(time.time() - self.t0, 3),
            "violations": len(self.violations),
        }
        if self.selftest is not None:
            ev["coverage"]["selftest"] = self.selftest
        os.makedirs(os.path.join(VERIF, "evidence"), exist_ok=True)
        with open(os.path.join(VERIF, "evidence", f"{self.prop}.json"), "w") as fh:
            json.dump(ev, fh, indent=1, default=str)
