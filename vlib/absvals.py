"""Abstract values and heap objects of the path-sensitive effect extractor (E2).

Values are immutable and hashable; mutable things live on the abstract heap and are referenced through
``Ref(oid)`` so that a state can be cloned cheaply when the body of a generic loop is enumerated.
"""
from __future__ import annotations

from dataclasses import dataclass, field

from . import formula as F


# ----------------------------------------------------------------------------------------------
# immutable values
# ----------------------------------------------------------------------------------------------
@dataclass(frozen=True)
class Const:
    value: object

    def __repr__(self):
        return f"Const({self.value!r})"


@dataclass(frozen=True)
class Sym:
    """Opaque unknown value identified by a hashable label."""
    label: object
    hint: str = ""  # 'bool', 'int', 'list', ... only a hint for predicates

    def __repr__(self):
        return f"Sym({F.show_desc(self.label)})"


@dataclass(frozen=True)
class PredV:
    """Symbolic Boolean: ('sat', qid) ('empty', d) ('truthy', d) ('cmp', op, a, b) ('in', a, b)
    ('exists'|'forall', binder, fam, guard, pred) ('not', p) ('and', (..)) ('or', (..)) ('const', b)"""
    p: tuple

    def __repr__(self):
        return f"Pred({show_pred(self.p)})"


@dataclass(frozen=True)
class FormulaV:
    f: tuple
    backend: str = "?"  # 'pysmt' | 'z3' | '?'

    def __repr__(self):
        return f"Formula[{self.backend}]({F.show(self.f)})"


@dataclass(frozen=True)
class LinV:
    """Symbolic integer (Python int, pysmt INT term or z3 Int) as a linear form."""
    lin: tuple
    kind: str = "py"  # 'py' | 'term'

    def __repr__(self):
        return f"Lin({F.show_lin(self.lin)})"


@dataclass(frozen=True)
class Ref:
    oid: int

    def __repr__(self):
        return f"Ref({self.oid})"


@dataclass(frozen=True)
class TupleV:
    items: tuple

    def __repr__(self):
        return "Tuple(" + ", ".join(map(repr, self.items)) + ")"


@dataclass(frozen=True)
class ElemV:
    """A generic element: the entry ``var`` of some family, seen through ``role``
    ('cond' conditional object, 'key' its dictionary key, 'set' a set of keys, 'layer', 'plain', ...)."""
    var: tuple  # ('var', name) or a specific descriptor such as ('obj', 'query')
    role: str
    fam: object = None
    cls: str = ""  # class of the element for attribute/method lookup (role 'cond')

    def __repr__(self):
        return f"Elem({F.show_desc(self.var)}:{self.role})"


@dataclass(frozen=True)
class FuncV:
    qualname: str
    self_value: object = None

    def __repr__(self):
        return f"Func({self.qualname})"


@dataclass(frozen=True)
class ClassV:
    qualname: str


@dataclass(frozen=True)
class ExtV:
    """External (third-party / builtin) callable, module or constant, by canonical dotted name."""
    name: str
    self_value: object = None

    def __repr__(self):
        return f"Ext({self.name})"


@dataclass(frozen=True)
class MethV:
    """Builtin method of an abstract object (list.append, solver.push, ...)."""
    obj: object
    name: str


@dataclass(frozen=True)
class NameV:
    """A formatted string with symbolic parts (f-string): tuple of Const str / value descriptors."""
    parts: tuple

    def __repr__(self):
        return "Name(" + "".join(p if isinstance(p, str) else "{" + F.show_desc(p) + "}" for p in self.parts) + ")"


@dataclass(frozen=True)
class ExcV:
    """An exception instance/class: name of the class and where it came from."""
    cls: str
    origin: object = None
    args: tuple = ()

    def __repr__(self):
        return f"Exc({self.cls})"


@dataclass(frozen=True)
class CtxGenV:
    """The not yet entered generator of an @contextmanager function (function info, bound arguments)."""
    fi: object
    args: tuple
    kwargs: tuple

    def __repr__(self):
        return f"CtxGen({self.fi.qualname})"


@dataclass(frozen=True)
class GenV:
    """A generator object that has not run yet (generator function, bound arguments); consumed by a for statement."""
    fi: object
    args: tuple
    kwargs: tuple
    wrap: tuple = ()  # lazy wrappers around what it yields, innermost first: ("enumerate", start)

    def __repr__(self):
        return f"Gen({self.fi.qualname})"


@dataclass(frozen=True)
class LambdaV:
    node: object
    frame_id: int


# ----------------------------------------------------------------------------------------------
# heap objects (mutable, cloneable)
# ----------------------------------------------------------------------------------------------
class HObjBase:
    kind = "obj"

    def clone(self):
        raise NotImplementedError


class HList(HObjBase):
    """Sequence of segments:
       ('one', value) | ('each', binder, fam, guard, value) | ('sym', name)"""
    kind = "list"

    def __init__(self, segs=None, ordered=True, is_set=False):
        self.segs = list(segs or [])
        self.is_set = is_set
        self.sorted_by = None
        self.one_shot = False   # a generator: whoever iterates over it first uses it up
        self.consumed = False

    def clone(self):
        c = HList(self.segs, is_set=self.is_set)
        c.sorted_by = self.sorted_by
        c.one_shot, c.consumed = self.one_shot, self.consumed
        return c

    def concrete(self):
        return all(s[0] == "one" for s in self.segs)

    def values(self):
        return [s[1] for s in self.segs if s[0] == "one"]


class HDict(HObjBase):
    """entries: const key -> value (insertion ordered); each: [('each', binder, fam, guard, key, value)];
    sym: name of an opaque remainder or None"""
    kind = "dict"

    def __init__(self, entries=None, each=None, sym=None):
        self.entries = dict(entries or {})
        self.each = list(each or [])
        self.sym = sym
        self.default_factory = None  # collections.defaultdict: the callable that makes the value of a missing key

    def clone(self):
        d = HDict(self.entries, self.each, self.sym)
        d.default_factory = self.default_factory
        if getattr(self, "is_counter", False):
            d.is_counter = True
        if hasattr(self, "symkeys"):
            d.symkeys = dict(self.symkeys)
        if hasattr(self, "shared"):
            d.shared = self.shared
        return d


class HObj(HObjBase):
    kind = "obj"

    def __init__(self, cls, attrs=None):
        self.cls = cls
        self.attrs = dict(attrs or {})

    def clone(self):
        return HObj(self.cls, self.attrs)


class HSolver(HObjBase):
    """pysmt Solver / z3 Solver / z3 Optimize: stack of frames of asserted items.
    item: ('f', formula) | ('each', binder, fam, guard, item) | ('sym', name)
    soft: list of items (Optimize.add_soft); objectives: minimize terms; options: set(...) calls"""
    kind = "solver"

    def __init__(self, api, frames=None, soft=None, objectives=None, options=None, softframes=None):
        self.api = api  # 'pysmt' | 'z3.Solver' | 'z3.Optimize'
        self.frames = [list(fr) for fr in (frames if frames is not None else [[]])]
        self.soft = [list(fr) for fr in (soft if soft is not None else [[]])]  # soft items per frame
        self.objectives = list(objectives or [])
        self.options = dict(options or {})

    def clone(self):
        return HSolver(self.api, self.frames, self.soft, self.objectives, self.options)

    def flat(self):
        return tuple(i for fr in self.frames for i in fr)

    def flat_soft(self):
        return tuple(i for fr in self.soft for i in fr)


class HWcnf(HObjBase):
    kind = "wcnf"

    def __init__(self, hard=None, soft=None):
        self.hard = list(hard or [])
        self.soft = list(soft or [])

    def clone(self):
        return HWcnf(self.hard, self.soft)


class HOpaque(HObjBase):
    """Any other stateful external object (RC2, IDPool, Process, file, ...)."""
    kind = "opaque"

    def __init__(self, typ, attrs=None, log=None):
        self.typ = typ
        self.attrs = dict(attrs or {})
        self.log = list(log or [])

    def clone(self):
        return HOpaque(self.typ, self.attrs, self.log)


# ----------------------------------------------------------------------------------------------
# descriptors and pretty printing
# ----------------------------------------------------------------------------------------------
def desc(v):
    """Hashable descriptor of a value, used in predicate keys and labels."""
    if isinstance(v, Const):
        return ("c", v.value) if isinstance(v.value, (int, str, bool, float, type(None))) else ("c", repr(v.value))
    if isinstance(v, Sym):
        return v.label
    if isinstance(v, PredV):
        return ("pred", v.p)
    if isinstance(v, FormulaV):
        return ("f", v.f)
    if isinstance(v, LinV):
        if not v.lin[0]:
            return ("c", v.lin[1])
        if len(v.lin[0]) == 1 and v.lin[0][0][1] == 1 and v.lin[1] == 0:
            return v.lin[0][0][0]
        return ("lin", v.lin)
    if isinstance(v, Ref):
        return ("ref", v.oid)
    if isinstance(v, TupleV):
        return ("tuple",) + tuple(desc(i) for i in v.items)
    if isinstance(v, ElemV):
        return ("elem", v.var, v.role)
    if isinstance(v, FuncV):
        return ("func", v.qualname)
    if isinstance(v, ClassV):
        return ("class", v.qualname)
    if isinstance(v, ExtV):
        return ("ext", v.name)
    if isinstance(v, NameV):
        return ("name", v.parts)
    if isinstance(v, ExcV):
        return ("exc", v.cls)
    if isinstance(v, MethV):
        return ("meth", desc(v.obj), v.name)
    return ("?", repr(v))


def show_pred(p) -> str:
    k = p[0]
    if k == "not":
        return "¬" + show_pred(p[1])
    if k in ("and", "or"):
        return "(" + (" ∧ " if k == "and" else " ∨ ").join(show_pred(q) for q in p[1]) + ")"
    if k == "const":
        return str(p[1])
    if k in ("exists", "forall"):
        sym = "∃" if k == "exists" else "∀"
        g = "" if p[3] == ("const", True) else f" | {show_pred(p[3])}"
        return f"{sym}{F.show_desc(p[1])}∈{F.show_desc(p[2])}{g}: {show_pred(p[4])}"
    return k + "(" + ", ".join(F.show_desc(x) for x in p[1:]) + ")"


def pred_not(p):
    if p[0] == "not":
        return p[1]
    if p[0] == "const":
        return ("const", not p[1])
    return ("not", p)


PTRUE = ("const", True)
PFALSE = ("const", False)


def pred_and(ps):
    out = []
    for p in ps:
        if p == PTRUE:
            continue
        if p == PFALSE:
            return PFALSE
        if p[0] == "and":
            out.extend(p[1])
        else:
            out.append(p)
    if not out:
        return PTRUE
    if len(out) == 1:
        return out[0]
    return ("and", tuple(out))


def pred_or(ps):
    out = []
    for p in ps:
        if p == PFALSE:
            continue
        if p == PTRUE:
            return PTRUE
        if p[0] == "or":
            out.extend(p[1])
        else:
            out.append(p)
    if not out:
        return PFALSE
    if len(out) == 1:
        return out[0]
    return ("or", tuple(out))
