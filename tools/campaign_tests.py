#!/usr/bin/env python3
"""For campaign mutants that no check reports: does the repository's own test suite notice them?  (development aid)
usage: campaign_tests.py CAMPAIGN.jsonl OUT.jsonl [--jobs N]
A mutant that survives both the suite and the checks is either equivalent or a gap - those are triaged by hand."""
import json, os, shutil, subprocess, sys, tempfile
import concurrent.futures as cf
sys.path.insert(0, os.path.dirname(os.path.abspath(__file__)))
import mutation_campaign as M

SKIP = ("logger.", "perf_counter", "warn(", "save_meta", "warnings.warn")


def run(m):
    tmp = tempfile.mkdtemp(prefix="vct_")
    try:
        subprocess.run(["rsync", "-a", "--exclude", ".git", "--exclude", "docs", "--exclude", "output", "--exclude", "benchmarks", "--exclude", "__pycache__", "/repo/", tmp + "/"], check=True)
        if not M.apply_mutant(m, tmp):
            return {**m, "tests": "not-applied"}
        r = subprocess.run(["/venv/bin/python", "-m", "pytest", "-q", "-x", "-p", "no:cacheprovider", "--timeout=600", "--continue-on-collection-errors"], cwd=tmp, capture_output=True, text=True, timeout=1500)
        last = (r.stdout.strip().splitlines() or [""])[-1]
        return {**m, "tests": "pass" if r.returncode == 0 else "fail", "tests_last": last[-160:]}
    except subprocess.TimeoutExpired:
        return {**m, "tests": "timeout"}
    finally:
        shutil.rmtree(tmp, ignore_errors=True)


def main():
    src, out = sys.argv[1], sys.argv[2]
    jobs = 5
    for a in sys.argv[3:]:
        if a.startswith("--jobs="):
            jobs = int(a.split("=", 1)[1])
        elif a.startswith("--ops="):
            M.OPS["set"] = int(a.split("=", 1)[1])
    todo = []
    for l in open(src):
        r = json.loads(l)
        if r.get("status") != "ok":
            continue
        ex = [v["exit"] for v in r["results"].values()]
        if 1 in ex:
            continue
        if any(s in r["desc"] for s in SKIP):
            continue
        r["kind"] = "error" if 2 in ex else "silent"
        todo.append(r)
    print(len(todo), "mutants to run the suite on", file=sys.stderr)
    with open(out, "w") as fh, cf.ThreadPoolExecutor(jobs) as ex:
        for r in ex.map(run, todo):
            fh.write(json.dumps(r) + "\n")
            fh.flush()


if __name__ == "__main__":
    main()
