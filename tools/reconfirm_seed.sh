#!/bin/bash
# reconfirm_seed.sh <ID-k>: a filed seed (seeded/<ID-k>/patch.diff, demo.py) against the current HEAD of /repo, in a scratch
# worktree that is removed afterwards: the demonstration holds on the unchanged tree and shows the violation with the patch,
# and the unedited suite passes with the patch.  Prints one line; used after a fix: commit moved the context of a patch.
S=$1
D=/verif/seeded/$S
W=/tmp/confirm/re_$S
mkdir -p /tmp/confirm
git -C /repo worktree remove --force $W >/dev/null 2>&1
git -C /repo worktree add --detach $W HEAD >/dev/null 2>&1 || { echo "$S: worktree failed"; exit 1; }
cd $W; mkdir -p out; cp $D/demo.py out/demo.py
ORIG=$(PYTHONPATH=$W timeout 600 /venv/bin/python out/demo.py 2>&1 | grep -v "Warning\|get_logger\|^$" | tail -3 | tr '\n' ' ')
git apply $D/patch.diff || { echo "$S: patch does not apply"; cd /; git -C /repo worktree remove --force $W; exit 1; }
CHANGED=$(PYTHONPATH=$W timeout 600 /venv/bin/python out/demo.py 2>&1 | grep -v "Warning\|get_logger\|^$" | tail -3 | tr '\n' ' ')
TESTS=$(timeout 3000 /venv/bin/python -m pytest -q -p no:cacheprovider --timeout=900 --continue-on-collection-errors 2>&1 | tail -1)
echo "$S: unchanged: ${ORIG: -60} | changed: ${CHANGED: -60} | tests: $TESTS"
cd /; git -C /repo worktree remove --force $W >/dev/null 2>&1; rm -rf $W
