#!/usr/bin/env python3
"""keep_seed.py <ID> <k>: file a confirmed sub-agent change as /verif/seeded/<ID>-<k>/ (patch.diff, demo.py, meta.json)."""
import json, os, shutil, sys
sys.path.insert(0, os.path.join(os.path.dirname(os.path.abspath(__file__))))
import seed_checks

ID, K = sys.argv[1], int(sys.argv[2])
DEST = int(sys.argv[3]) if len(sys.argv) > 3 else K      # number under which the change is filed (round 2: K + 2)
src = f"/tmp/seed/{ID}/out"
conf = json.load(open(f"/tmp/confirm/{ID}_{K}.json"))
if conf.get("error"):
    print("not confirmed:", conf["error"]); sys.exit(1)
ok_tests = " passed" in conf["tests"] and " failed" not in conf["tests"] and " error" not in conf["tests"]
differs = conf["demo_original"].strip() != conf["demo_changed"].strip()
if not (ok_tests and differs):
    print("not confirmed: tests", conf["tests"], "demo differs", differs); sys.exit(1)
metas = json.load(open(os.path.join(src, "meta.json")))
m = next((x for x in metas if str(K) in x.get("patch", "")), metas[K - 1] if len(metas) >= K else {})
res = seed_checks.run(os.path.join(src, f"patch_{K}.diff"))
dst = f"/verif/seeded/{ID}-{DEST}"
os.makedirs(dst, exist_ok=True)
shutil.copy(os.path.join(src, f"patch_{K}.diff"), os.path.join(dst, "patch.diff"))
shutil.copy(os.path.join(src, f"demo_{K}.py"), os.path.join(dst, "demo.py"))
import glob
for h in glob.glob(os.path.join(src, "*.py")):
    b = os.path.basename(h)
    if not b.startswith("demo_") and b not in ("fuzz.py",):
        shutil.copy(h, os.path.join(dst, b))   # helper modules the demonstration imports
fired = sorted(p for p, r in res["results"].items() if r["exit"] == 1)
errs = sorted(p for p, r in res["results"].items() if r["exit"] == 2)
meta = {
    "property": ID, "file": m.get("file"), "function": m.get("function"), "what": m.get("what"), "why_breaks": m.get("why_breaks"),
    "source": "sub-agent given only the property text and a scratch worktree",
    "confirmed": {"tests_with_change": conf["tests"].strip("= "), "demo_on_changed_tree": conf["demo_changed"][-1500:], "demo_on_original_tree": conf["demo_original"][-1500:]},
    "detected_by": fired, "analysis_errors": errs,
    "rules": {p: res["results"][p]["rules"] for p in fired},
    "report": {p: res["results"][p]["first"] for p in fired[:3]},
    "own_property_detects": ID in fired,
    "apply": f"git -C /repo apply /verif/seeded/{ID}-{DEST}/patch.diff   # undo: git -C /repo checkout -- .",
}
json.dump(meta, open(os.path.join(dst, "meta.json"), "w"), indent=1)
print(f"{ID}-{DEST}: kept; detected by {fired}; own property: {ID in fired}; errors {errs}")
