#!/usr/bin/env python3
"""refresh_seed_rules.py <ID-k> ...: after a rule was re-implemented under other names, record again which checks report a
filed seed and under which rules (seeded/<ID-k>/meta.json: detected_by, rules).  Refuses when the seed's own property no
longer reports it."""
import json, os, sys
sys.path.insert(0, os.path.dirname(os.path.abspath(__file__)))
import seed_checks
VERIF = os.path.dirname(os.path.dirname(os.path.abspath(__file__)))
for sid in sys.argv[1:]:
    d = os.path.join(VERIF, "seeded", sid)
    meta = json.load(open(os.path.join(d, "meta.json")))
    out = seed_checks.run(os.path.join(d, "patch.diff"))
    fired = sorted(p for p, r in out["results"].items() if r["exit"] == 1)
    if meta["property"] not in fired:
        print(f"{sid}: NOT detected by its own property any more ({fired}); left unchanged")
        continue
    meta["detected_by"] = fired
    meta["analysis_errors"] = sorted(p for p, r in out["results"].items() if r["exit"] == 2)
    meta["rules"] = {p: out["results"][p]["rules"] for p in fired}
    json.dump(meta, open(os.path.join(d, "meta.json"), "w"), indent=1)
    print(f"{sid}: detected by {fired}")
