#!/bin/bash
# confirm_refactoring.sh <ID> <k>: in a fresh scratch worktree of /repo (removed afterwards): the patch applies, the unedited
# suite passes with it, and same.py prints the same (on stdout; tracebacks that worker processes write to stderr name source lines) before and after.  Result: /tmp/confirm/R<ID>_<k>.json
ID=$1; K=$2
D=/verif/refactorings/${ID}-$K
W=/tmp/confirm/R${ID}_$K
mkdir -p /tmp/confirm
git -C /repo worktree remove --force $W >/dev/null 2>&1
git -C /repo worktree add --detach $W HEAD >/dev/null 2>&1 || exit 1
cd $W
mkdir -p out && cp $D/same.py out/same.py
BEFORE=$(PYTHONPATH=$W timeout 900 /venv/bin/python out/same.py 2>/dev/null | grep -v "Warning\|get_logger\|__init__.py" | sed -E "s/, line [0-9]+, in /, line N, in /" | md5sum)
git apply $D/patch.diff 2>/dev/null || { echo "{\"id\":\"$ID\",\"k\":$K,\"error\":\"patch\"}" > /tmp/confirm/R${ID}_$K.json; cd /; git -C /repo worktree remove --force $W; exit 1; }
AFTER=$(PYTHONPATH=$W timeout 900 /venv/bin/python out/same.py 2>/dev/null | grep -v "Warning\|get_logger\|__init__.py" | sed -E "s/, line [0-9]+, in /, line N, in /" | md5sum)
TESTS=$(timeout 3000 /venv/bin/python -m pytest -q -p no:cacheprovider --timeout=900 --continue-on-collection-errors 2>&1 | tail -1)
echo "{\"id\":\"$ID\",\"k\":$K,\"same\":\"$([ "$BEFORE" == "$AFTER" ] && echo yes || echo no)\",\"tests\":\"$TESTS\"}" > /tmp/confirm/R${ID}_$K.json
cd /
git -C /repo worktree remove --force $W >/dev/null 2>&1
rm -rf $W
