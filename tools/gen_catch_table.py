#!/usr/bin/env python3
"""Markdown table 'which check catches which change' from seeded/*/meta.json and selftest/corpus.json (printed to stdout;
pasted into DESIGN.md section 10.5)."""
import glob, json, os
VERIF = os.path.dirname(os.path.dirname(os.path.abspath(__file__)))
print("| seeded change | where | what | reported by (rules) |")
print("|---|---|---|---|")
for mp in sorted(glob.glob(os.path.join(VERIF, "seeded", "*", "meta.json"))):
    m = json.load(open(mp))
    name = os.path.basename(os.path.dirname(mp))
    rules = "; ".join(f"{p}: {', '.join(r)}" for p, r in sorted(m.get("rules", {}).items()))
    what = (m.get("what") or "").replace("|", "\\|").replace("\n", " ")
    fn = (m.get("function") or "").replace("|", "\\|")
    print(f"| {name} | `{(m.get('file') or '').replace('/tmp/seed/' + m['property'] + '/', '')}` {fn[:60]} | {what[:230]} | {rules} |")
c = json.load(open(os.path.join(VERIF, "selftest", "corpus.json")))
by = {}
for v in c["variants"]:
    for p in v["props"]:
        by.setdefault(p, {"fire": 0, "silent": 0})[v["expect"]] += 1
print()
print("| property | must-fire variants | must-stay-silent variants |")
print("|---|---|---|")
for p in sorted(by):
    print(f"| {p} | {by[p]['fire']} | {by[p]['silent']} |")
