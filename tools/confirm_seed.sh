#!/bin/bash
# confirm_seed.sh <ID> <k> : confirm a sub-agent's change in a fresh scratch worktree of /repo (removed afterwards):
# the patch applies, the unedited suite passes with it, the demonstration shows the violation with it and the required
# behaviour without it.  Result: /tmp/confirm/<ID>_<k>.json
ID=$1; K=$2
SRC=/tmp/seed/$ID/out
W=/tmp/confirm/${ID}_$K
mkdir -p /tmp/confirm
git -C /repo worktree remove --force $W >/dev/null 2>&1
git -C /repo worktree add --detach $W HEAD >/dev/null 2>&1 || { echo "{\"id\":\"$ID\",\"k\":$K,\"error\":\"worktree\"}" > /tmp/confirm/${ID}_$K.json; exit 1; }
cd $W
mkdir -p out && cp $SRC/*.py out/
ORIG=$(PYTHONPATH=$W timeout 600 /venv/bin/python out/demo_$K.py 2>&1 | grep -v "Warning\|get_logger\|^$" | tail -25)
if ! git apply $SRC/patch_$K.diff 2>/tmp/confirm/${ID}_$K.applyerr; then
  echo "{\"id\":\"$ID\",\"k\":$K,\"error\":\"patch does not apply\"}" > /tmp/confirm/${ID}_$K.json
  cd /; git -C /repo worktree remove --force $W; exit 1
fi
CHANGED=$(PYTHONPATH=$W timeout 600 /venv/bin/python out/demo_$K.py 2>&1 | grep -v "Warning\|get_logger\|^$" | tail -25)
TESTS=$(timeout 3000 /venv/bin/python -m pytest -q -p no:cacheprovider --timeout=900 --continue-on-collection-errors 2>&1 | tail -1)
/venv/bin/python - "$ID" "$K" "$ORIG" "$CHANGED" "$TESTS" <<'PY' > /tmp/confirm/${ID}_$K.json
import json,sys
print(json.dumps({"id":sys.argv[1],"k":int(sys.argv[2]),"demo_original":sys.argv[3],"demo_changed":sys.argv[4],"tests":sys.argv[5]},indent=1))
PY
cd /
git -C /repo worktree remove --force $W >/dev/null 2>&1
rm -rf $W
