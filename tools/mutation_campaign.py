#!/usr/bin/env python3
"""Automated mutation campaign against the checks (development aid, not a registered check).

Generates classic first-order mutants (relational / Boolean operator replacement, constant changes, negated tests,
deleted call statements, swapped positional arguments, ...) inside the functions the checks analyse, applies each to a
scratch copy of the packages and runs the checks that analyse the mutated function.  Output: one JSON line per mutant with
the exit code of every such check.  exit 1 = reported, exit 2 = analysis error (candidate for a sharper rule), exit 0 =
silent (equivalent mutant or a gap - triaged by hand / by the test suite).

usage: mutation_campaign.py OUT.jsonl [--files f1,f2] [--jobs N] [--limit N]"""
import ast, copy, glob, json, os, shutil, subprocess, sys, tempfile
import concurrent.futures as cf

VERIF = os.path.dirname(os.path.dirname(os.path.abspath(__file__)))
ROOT = "/repo"


def analysed():
    """qualname -> set of properties whose last evidence lists the function as analysed."""
    m = {}
    for f in glob.glob(os.path.join(VERIF, "evidence", "C*.json")):
        d = json.load(open(f))
        for q in d["coverage"].get("analysed_functions", []):
            m.setdefault(q, set()).add(d["property_id"])
    return m


class Mut:
    def __init__(self, desc, apply):
        self.desc, self.apply = desc, apply


OPS = {"set": 1}

SWAPS = [("antecedence", "consequence"), ("make_A_then_B", "make_A_then_not_B"), ("make_A_then_not_B", "make_not_A_or_B"), ("make_not_A_or_B", "make_A_then_B"),
         ("v_cnf_dict", "f_cnf_dict"), ("f_cnf_dict", "nf_cnf_dict"), ("nf_cnf_dict", "v_cnf_dict"), ("vMin", "fMin"), ("query_v_cnf", "query_f_cnf"),
         ("min", "max"), ("any", "all"), ("issubset", "issuperset"), ("keys", "values"), ("world_acc", "world_rej"), ("append", "extend"), ("add", "discard"),
         ("GE", "GT"), ("GT", "GE"), ("LE", "LT"), ("And", "Or"), ("push", "pop"), ("expired", "remaining_ms"), ("is_sat", "is_unsat"), ("union", "intersection")]


def mutants2_of(fn):
    """Second operator family: domain swaps (attribute / function names of the same kind), a local used in place of
    another local, a guard dropped (body kept), a guarded early exit removed, else-branch dropped."""
    nodes = list(ast.walk(fn))
    out = []
    swap = {}
    for a, b in SWAPS:
        swap.setdefault(a, []).append(b)
        swap.setdefault(b, []).append(a)
    assigned = []
    for n in nodes:
        if isinstance(n, ast.Name) and isinstance(n.ctx, ast.Store) and n.id not in assigned:
            assigned.append(n.id)
    params = [a.arg for a in fn.args.args if a.arg != "self"]
    pool = [x for x in assigned + params if not x.startswith("_")]
    for i, n in enumerate(nodes):
        ln = getattr(n, "lineno", 0)
        if isinstance(n, ast.Attribute) and n.attr in swap:
            for b in dict.fromkeys(swap[n.attr]):
                out.append((f"{ln}: .{n.attr} -> .{b}", i, lambda x, b=b: setattr(x, "attr", b)))
        elif isinstance(n, ast.Name) and isinstance(n.ctx, ast.Load) and n.id in swap and n.id not in pool:
            for b in dict.fromkeys(swap[n.id]):
                out.append((f"{ln}: {n.id} -> {b}", i, lambda x, b=b: setattr(x, "id", b)))
        elif isinstance(n, ast.Constant) and isinstance(n.value, str) and n.value in swap:
            for b in dict.fromkeys(swap[n.value]):
                out.append((f"{ln}: '{n.value}' -> '{b}'", i, lambda x, b=b: setattr(x, "value", b)))
        elif isinstance(n, ast.Name) and isinstance(n.ctx, ast.Load) and n.id in pool and len(pool) > 1:
            k = pool.index(n.id)
            other = pool[(k + 1) % len(pool)]
            if other != n.id:
                out.append((f"{ln}: name {n.id} -> {other}", i, lambda x, other=other: setattr(x, "id", other)))
        elif isinstance(n, ast.If) and not n.orelse and not isinstance(n.test, ast.Constant):
            body_exits = isinstance(n.body[-1], (ast.Return, ast.Raise, ast.Continue, ast.Break))
            if body_exits:
                out.append((f"{ln}: remove guarded exit", i, "DELETE"))
            else:
                out.append((f"{ln}: drop guard (body unconditional)", i, "UNGUARD"))
        elif isinstance(n, ast.If) and n.orelse and not (len(n.orelse) == 1 and isinstance(n.orelse[0], ast.If)):
            out.append((f"{ln}: drop else branch", i, "DROPELSE"))
    return out


COPIERS = ("list", "dict", "set", "sorted", "tuple", "deepcopy", "copy")


def _parents(fn):
    par = {}
    for n in ast.walk(fn):
        for fld, val in ast.iter_fields(n):
            if isinstance(val, list):
                for k, c in enumerate(val):
                    if isinstance(c, ast.AST):
                        par[id(c)] = (n, fld, k)
            elif isinstance(val, ast.AST):
                par[id(val)] = (n, fld, None)
    return par


def mutants3_of(fn):
    """Third operator family (statement level): an initialisation hoisted out of / sunk into a loop, an alias instead of a
    copy, break <-> continue, slice and range bounds moved by one, loops that skip the first / last element, dropped
    comprehension filters, dropped stores into containers / attributes, `+=` -> `=`, two adjacent statements swapped."""
    nodes = list(ast.walk(fn))
    par = _parents(fn)
    out = []
    for i, n in enumerate(nodes):
        ln = getattr(n, "lineno", 0)
        if isinstance(n, (ast.For, ast.While)):
            if n.body and isinstance(n.body[0], ast.Assign) and len(n.body) > 1 and isinstance(n.body[0].targets[0], ast.Name):
                out.append((f"{ln}: hoist '{ast.unparse(n.body[0])[:40]}' out of the loop", i, "HOIST"))
            pn = par.get(id(n))
            if pn and pn[2] and isinstance(getattr(pn[0], pn[1])[pn[2] - 1], ast.Assign) and isinstance(getattr(pn[0], pn[1])[pn[2] - 1].targets[0], ast.Name):
                out.append((f"{ln}: sink '{ast.unparse(getattr(pn[0], pn[1])[pn[2] - 1])[:40]}' into the loop", i, "SINK"))
            if isinstance(n, ast.For) and not isinstance(n.iter, (ast.Call,)) or (isinstance(n, ast.For) and isinstance(n.iter, ast.Call) and isinstance(n.iter.func, ast.Attribute) and n.iter.func.attr in ("items", "keys", "values")):
                pass
            if isinstance(n, ast.For) and isinstance(n.iter, (ast.Name, ast.Attribute, ast.Subscript)):
                out.append((f"{ln}: loop skips the first element", i, "SKIPFIRST"))
                out.append((f"{ln}: loop skips the last element", i, "SKIPLAST"))
        elif isinstance(n, ast.Call) and len(n.args) == 1 and not n.keywords and ((isinstance(n.func, ast.Name) and n.func.id in COPIERS) or (isinstance(n.func, ast.Attribute) and n.func.attr in ("deepcopy", "copy") and isinstance(n.func.value, ast.Name) and n.func.value.id == "copy")) and isinstance(n.args[0], (ast.Name, ast.Attribute, ast.Subscript)):
            out.append((f"{ln}: alias instead of {ast.unparse(n)[:40]}", i, "ALIAS"))
        elif isinstance(n, ast.Call) and isinstance(n.func, ast.Attribute) and n.func.attr == "copy" and not n.args:
            out.append((f"{ln}: alias instead of {ast.unparse(n)[:40]}", i, "ALIASM"))
        elif isinstance(n, ast.Break):
            out.append((f"{ln}: break -> continue", i, "B2C"))
        elif isinstance(n, ast.Continue):
            out.append((f"{ln}: continue -> break", i, "C2B"))
        elif isinstance(n, ast.Slice):
            if n.upper is not None:
                out.append((f"{ln}: slice upper -1", i, lambda x: setattr(x, "upper", ast.BinOp(left=x.upper, op=ast.Sub(), right=ast.Constant(1)))))
                out.append((f"{ln}: slice upper +1", i, lambda x: setattr(x, "upper", ast.BinOp(left=x.upper, op=ast.Add(), right=ast.Constant(1)))))
            if n.lower is not None:
                out.append((f"{ln}: slice lower +1", i, lambda x: setattr(x, "lower", ast.BinOp(left=x.lower, op=ast.Add(), right=ast.Constant(1)))))
            if n.lower is None and n.upper is None and n.step is None:
                pass
        elif isinstance(n, ast.Call) and isinstance(n.func, ast.Name) and n.func.id == "range" and 1 <= len(n.args) <= 2:
            out.append((f"{ln}: range upper -1", i, lambda x: x.args.__setitem__(len(x.args) - 1, ast.BinOp(left=x.args[-1], op=ast.Sub(), right=ast.Constant(1)))))
            out.append((f"{ln}: range upper +1", i, lambda x: x.args.__setitem__(len(x.args) - 1, ast.BinOp(left=x.args[-1], op=ast.Add(), right=ast.Constant(1)))))
            if len(n.args) == 1:
                out.append((f"{ln}: range starts at 1", i, lambda x: x.args.insert(0, ast.Constant(1))))
        elif isinstance(n, ast.comprehension) and n.ifs:
            out.append((f"{ln}: comprehension filter dropped", i, lambda x: setattr(x, "ifs", [])))
        elif isinstance(n, ast.Assign) and isinstance(n.targets[0], (ast.Subscript, ast.Attribute)):
            out.append((f"{ln}: store dropped: {ast.unparse(n.targets[0])[:40]}", i, "DELETE"))
        elif isinstance(n, ast.AugAssign):
            out.append((f"{ln}: {ast.unparse(n)[:30]}: augmented -> plain assignment", i, "AUG2PLAIN"))
        if isinstance(n, ast.stmt):
            pn = par.get(id(n))
            if pn and pn[2] is not None and pn[2] + 1 < len(getattr(pn[0], pn[1])):
                nxt = getattr(pn[0], pn[1])[pn[2] + 1]
                simple = (ast.Assign, ast.AugAssign, ast.Expr, ast.AnnAssign)
                if isinstance(n, simple) and isinstance(nxt, simple) and not _is_log(n) and not _is_log(nxt) and not _docstring(n) and not _docstring(nxt):
                    out.append((f"{ln}: swap with next statement", i, "SWAPNEXT"))
    return out


def _is_log(st):
    return isinstance(st, ast.Expr) and isinstance(st.value, ast.Call) and isinstance(st.value.func, ast.Attribute) and st.value.func.attr in ("debug", "info", "warning", "error")


def _docstring(st):
    return isinstance(st, ast.Expr) and isinstance(st.value, ast.Constant)


def apply3(fn, node, how):
    par = _parents(fn)
    pn = par.get(id(node))
    if how == "HOIST":
        first = node.body.pop(0)
        lst = getattr(pn[0], pn[1])
        lst.insert(pn[2], first)
    elif how == "SINK":
        lst = getattr(pn[0], pn[1])
        prev = lst.pop(pn[2] - 1)
        node.body.insert(0, prev)
    elif how in ("SKIPFIRST", "SKIPLAST"):
        it = node.iter
        node.iter = ast.Subscript(value=ast.Call(func=ast.Name(id="list", ctx=ast.Load()), args=[it], keywords=[]),
                                  slice=ast.Slice(lower=ast.Constant(1), upper=None) if how == "SKIPFIRST" else ast.Slice(lower=None, upper=ast.UnaryOp(op=ast.USub(), operand=ast.Constant(1))), ctx=ast.Load())
    elif how in ("ALIAS", "ALIASM"):
        repl = node.args[0] if how == "ALIAS" else node.func.value
        if pn[2] is None:
            setattr(pn[0], pn[1], repl)
        else:
            getattr(pn[0], pn[1])[pn[2]] = repl
    elif how in ("B2C", "C2B"):
        getattr(pn[0], pn[1])[pn[2]] = ast.Continue() if how == "B2C" else ast.Break()
    elif how == "AUG2PLAIN":
        getattr(pn[0], pn[1])[pn[2]] = ast.Assign(targets=[node.target], value=node.value)
        node.target.ctx = ast.Store()
    elif how == "INDENT":
        lst = getattr(pn[0], pn[1])
        nxt = lst.pop(pn[2] + 1)
        node.body.append(nxt)
    elif how == "DEDENT":
        lst = getattr(pn[0], pn[1])
        last = node.body.pop()
        lst.insert(pn[2] + 1, last)
    elif how == "SWAPNEXT":
        lst = getattr(pn[0], pn[1])
        lst[pn[2]], lst[pn[2] + 1] = lst[pn[2] + 1], lst[pn[2]]
    else:
        return False
    return True


def mutants4_of(fn):
    """Fourth family (indentation slips): the statement after a loop moved into the loop (as its last statement), the last
    statement of a loop body moved behind the loop; the same for `if` bodies (the statement after an `if` without else
    moved into it, the last statement of an `if` body moved behind it)."""
    nodes = list(ast.walk(fn))
    par = _parents(fn)
    out = []
    for i, n in enumerate(nodes):
        ln = getattr(n, "lineno", 0)
        if isinstance(n, (ast.For, ast.While, ast.If)) and not n.orelse:
            pn = par.get(id(n))
            kind = "loop" if isinstance(n, (ast.For, ast.While)) else "if"
            if pn and pn[2] is not None and pn[2] + 1 < len(getattr(pn[0], pn[1])):
                nxt = getattr(pn[0], pn[1])[pn[2] + 1]
                if not _is_log(nxt) and not isinstance(nxt, (ast.FunctionDef, ast.ClassDef)) and not (kind == "if" and isinstance(n.body[-1], (ast.Return, ast.Raise, ast.Continue, ast.Break))):
                    out.append((f"{ln}: statement after the {kind} indented into it: {ast.unparse(nxt)[:40]}", i, "INDENT"))
            if len(n.body) > 1 and not _is_log(n.body[-1]) and not isinstance(n.body[-1], (ast.Continue, ast.Break)):
                out.append((f"{ln}: last statement of the {kind} body dedented: {ast.unparse(n.body[-1])[:40]}", i, "DEDENT"))
    return out


def mutants_of(fn):
    """Yield (description, mutator(node_copy)) for one function; mutators are located by a pre-order index."""
    if OPS["set"] == 2:
        return mutants2_of(fn)
    if OPS["set"] == 3:
        return mutants3_of(fn)
    if OPS["set"] == 4:
        return mutants4_of(fn)
    nodes = list(ast.walk(fn))
    out = []
    REL = {ast.Lt: [ast.LtE, ast.GtE], ast.LtE: [ast.Lt], ast.Gt: [ast.GtE, ast.LtE], ast.GtE: [ast.Gt], ast.Eq: [ast.NotEq], ast.NotEq: [ast.Eq],
           ast.Is: [ast.IsNot], ast.IsNot: [ast.Is], ast.In: [ast.NotIn], ast.NotIn: [ast.In]}
    for i, n in enumerate(nodes):
        ln = getattr(n, "lineno", 0)
        if isinstance(n, ast.Compare) and len(n.ops) == 1:
            for new in REL.get(type(n.ops[0]), []):
                out.append((f"{ln}: {type(n.ops[0]).__name__}->{new.__name__}", i, lambda x, new=new: setattr(x, "ops", [new()])))
        elif isinstance(n, ast.BoolOp):
            new = ast.Or if isinstance(n.op, ast.And) else ast.And
            out.append((f"{ln}: {type(n.op).__name__}->{new.__name__}", i, lambda x, new=new: setattr(x, "op", new())))
        elif isinstance(n, ast.Constant) and isinstance(n.value, bool):
            out.append((f"{ln}: {n.value}->{not n.value}", i, lambda x: setattr(x, "value", not x.value)))
        elif isinstance(n, ast.Constant) and isinstance(n.value, int) and not isinstance(n.value, bool) and abs(n.value) <= 3:
            for d in (1, -1):
                out.append((f"{ln}: {n.value}->{n.value + d}", i, lambda x, d=d: setattr(x, "value", x.value + d)))
        elif isinstance(n, (ast.If, ast.While)) and not (isinstance(n.test, ast.Constant)):
            out.append((f"{ln}: negate test", i, lambda x: setattr(x, "test", ast.UnaryOp(op=ast.Not(), operand=x.test))))
        elif isinstance(n, ast.UnaryOp) and isinstance(n.op, ast.Not):
            out.append((f"{ln}: drop not", i, "DROPNOT"))
        elif isinstance(n, ast.Expr) and isinstance(n.value, (ast.Call, ast.ListComp)) and not (isinstance(n.value, ast.Call) and isinstance(n.value.func, ast.Attribute) and n.value.func.attr in ("debug", "info", "warning")):
            out.append((f"{ln}: delete statement {ast.unparse(n)[:50]}", i, "DELETE"))
        elif isinstance(n, ast.Call) and len(n.args) >= 2 and not any(isinstance(a, ast.Starred) for a in n.args):
            out.append((f"{ln}: swap args of {ast.unparse(n.func)[:30]}", i, lambda x: x.args.__setitem__(slice(0, 2), [x.args[1], x.args[0]])))
        elif isinstance(n, ast.BinOp) and isinstance(n.op, (ast.Add, ast.Sub)):
            new = ast.Sub if isinstance(n.op, ast.Add) else ast.Add
            out.append((f"{ln}: {type(n.op).__name__}->{new.__name__}", i, lambda x, new=new: setattr(x, "op", new())))
        elif isinstance(n, ast.Return) and n.value is not None and isinstance(n.value, (ast.Name, ast.Call, ast.Compare, ast.BoolOp)) :
            out.append((f"{ln}: return not(...)", i, lambda x: setattr(x, "value", ast.UnaryOp(op=ast.Not(), operand=x.value))))
    return out


class _Deleter(ast.NodeTransformer):
    def __init__(self, target):
        self.target = target

    def visit(self, node):
        if node is self.target:
            return ast.Pass()
        return super().generic_visit(node) or node


def build_mutants(files):
    an = analysed()
    muts = []
    for rel in files:
        path = os.path.join(ROOT, rel)
        src = open(path).read()
        tree = ast.parse(src)
        mod = rel[:-3].replace("/", ".")

        def funcs(body, prefix):
            for st in body:
                if isinstance(st, (ast.FunctionDef, ast.AsyncFunctionDef)):
                    yield prefix + st.name, st
                elif isinstance(st, ast.ClassDef):
                    yield from funcs(st.body, prefix + st.name + ".")

        for qn, fn in funcs(tree.body, mod + "."):
            props = an.get(qn)
            if not props:
                continue
            for desc, idx, how in mutants_of(fn):
                muts.append({"file": rel, "function": qn, "desc": desc, "idx": idx, "props": sorted(props)})
    return muts


def apply_mutant(m, tmp):
    path = os.path.join(tmp, m["file"])
    tree = ast.parse(open(path).read())
    mod = m["file"][:-3].replace("/", ".")

    def find(body, prefix):
        for st in body:
            if isinstance(st, (ast.FunctionDef, ast.AsyncFunctionDef)) and prefix + st.name == m["function"]:
                return st
            if isinstance(st, ast.ClassDef):
                r = find(st.body, prefix + st.name + ".")
                if r is not None:
                    return r
        return None

    fn = find(tree.body, mod + ".")
    cands = mutants_of(fn)
    for desc, idx, how in cands:
        if desc == m["desc"] and idx == m["idx"]:
            node = list(ast.walk(fn))[idx]
            if isinstance(how, str) and apply3(fn, node, how):
                pass
            elif how == "DELETE":
                _Deleter(node).visit(fn)
            elif how == "UNGUARD":
                class U(ast.NodeTransformer):
                    def visit_If(self, n):
                        if n is node:
                            return n.body
                        return self.generic_visit(n)
                U().visit(fn)
            elif how == "DROPELSE":
                node.orelse = []
            elif how == "DROPNOT":
                class R(ast.NodeTransformer):
                    def visit_UnaryOp(self, n):
                        if n is node:
                            return n.operand
                        return self.generic_visit(n)
                R().visit(fn)
            else:
                how(node)
            ast.fix_missing_locations(tree)
            open(path, "w").write(ast.unparse(tree) + "\n")
            return True
    return False


def run_one(m):
    tmp = tempfile.mkdtemp(prefix="vcamp_")
    try:
        for pkg in ("inference", "parser", "infocf"):
            shutil.copytree(os.path.join(ROOT, pkg), os.path.join(tmp, pkg), ignore=shutil.ignore_patterns("__pycache__"))
        if not apply_mutant(m, tmp):
            return {**m, "status": "not-applied"}
        res = {}
        for pr in m["props"]:
            r = subprocess.run([os.path.join(VERIF, "vcheck"), pr, "--root", tmp], capture_output=True, text=True, env={**os.environ, "VERIF_NO_EVIDENCE": "1"})
            first = next((l for l in r.stdout.splitlines() if l.startswith(("[FAIL]", "ANALYSIS-ERROR"))), "")
            res[pr] = {"exit": r.returncode, "first": first[:260]}
        return {**m, "status": "ok", "results": res}
    finally:
        shutil.rmtree(tmp, ignore_errors=True)


def main():
    out = sys.argv[1]
    files = None
    jobs, limit = 14, None
    for a in sys.argv[2:]:
        if a.startswith("--files="):
            files = a.split("=", 1)[1].split(",")
        elif a.startswith("--jobs="):
            jobs = int(a.split("=", 1)[1])
        elif a.startswith("--limit="):
            limit = int(a.split("=", 1)[1])
        elif a.startswith("--ops="):
            OPS["set"] = int(a.split("=", 1)[1])
    if files is None:
        files = [os.path.relpath(f, ROOT) for f in sorted(glob.glob(os.path.join(ROOT, "inference", "*.py")))] + ["parser/Wrappers.py", "parser/myVisitor.py"]
    muts = build_mutants(files)
    if limit:
        muts = muts[:limit]
    print(len(muts), "mutants", file=sys.stderr)
    with open(out, "w") as fh, cf.ThreadPoolExecutor(jobs) as ex:
        for r in ex.map(run_one, muts):
            fh.write(json.dumps(r) + "\n")
            fh.flush()


if __name__ == "__main__":
    main()
