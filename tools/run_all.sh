#!/bin/bash
# run every registered check (quick tier) on /repo and print exit codes; evidence is written
cd "$(dirname "$0")/.."
for i in $(seq -w 1 20); do
  p=C$i
  [ "$p" = "C08" ] && continue
  ( out=$(./vcheck $p 2>&1); rc=$?; echo "$p rc=$rc $(echo "$out" | grep -c KNOWN-FINDING) known $(echo "$out" | grep -E 'VIOLATION|ANALYSIS-ERROR' | head -2 | cut -c1-300)" ) &
done
wait
