#!/usr/bin/env python3
"""Run every registered check against /repo + one patch (scratch copy, removed afterwards):
seed_checks.py <patch.diff> [PROP ...]   ->  prints which properties report a violation."""
import json, os, shutil, subprocess, sys, tempfile
import concurrent.futures as cf

VERIF = os.path.dirname(os.path.dirname(os.path.abspath(__file__)))


def run(patch, props=None, root="/repo"):
    tmp = tempfile.mkdtemp(prefix="vseed_")
    try:
        for pkg in ("inference", "parser", "infocf"):
            shutil.copytree(os.path.join(root, pkg), os.path.join(tmp, pkg), ignore=shutil.ignore_patterns("__pycache__"))
        r = subprocess.run(["patch", "-p1", "-s", "-i", os.path.abspath(patch)], cwd=tmp, capture_output=True, text=True)
        if r.returncode != 0:
            return {"applied": False, "error": (r.stdout + r.stderr)[-400:]}
        if props is None:
            props = [c["property_id"] for c in json.load(open(os.path.join(VERIF, "MANIFEST.json")))["checks"]]

        def one(pr):
            rr = subprocess.run([os.path.join(VERIF, "vcheck"), pr, "--root", tmp], capture_output=True, text=True, env={**os.environ, "VERIF_NO_EVIDENCE": "1"})
            fails = [l for l in rr.stdout.splitlines() if l.startswith("[FAIL]")]
            err = [l for l in rr.stdout.splitlines() if l.startswith("ANALYSIS-ERROR")]
            return pr, {"exit": rr.returncode, "rules": sorted({l.split()[2] for l in fails}), "first": (fails or err or [""])[0][:400]}

        with cf.ThreadPoolExecutor(8) as ex:
            res = dict(ex.map(one, props))
        return {"applied": True, "results": res}
    finally:
        shutil.rmtree(tmp, ignore_errors=True)


if __name__ == "__main__":
    out = run(sys.argv[1], sys.argv[2:] or None)
    if not out["applied"]:
        print("PATCH DOES NOT APPLY", out["error"]); sys.exit(3)
    for pr, r in sorted(out["results"].items()):
        if r["exit"] != 0:
            print(f"{pr}: exit {r['exit']} {r['rules']} {r['first'][:300]}")
    print("fired:", sorted(p for p, r in out["results"].items() if r["exit"] == 1), "errors:", sorted(p for p, r in out["results"].items() if r["exit"] == 2))
