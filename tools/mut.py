#!/usr/bin/env python3
"""Try one textual mutant on a scratch copy: mut.py <relpath> <old> <new> <PROP> [PROP..]
(development aid; the registered self-test is vlib/selftest.py)"""
import os, shutil, subprocess, sys, tempfile
rel, old, new, props = sys.argv[1], sys.argv[2], sys.argv[3], sys.argv[4:]
tmp = tempfile.mkdtemp(prefix="vmut_")
try:
    for pkg in ("inference", "parser", "infocf"):
        shutil.copytree(os.path.join("/repo", pkg), os.path.join(tmp, pkg), ignore=shutil.ignore_patterns("__pycache__"))
    p = os.path.join(tmp, rel)
    s = open(p).read()
    n = s.count(old)
    if n == 0:
        print("PATTERN NOT FOUND"); sys.exit(3)
    idx = int(os.environ.get("MUT_INDEX", "0"))
    parts = s.split(old)
    s2 = old.join(parts[:idx + 1]) + new + old.join(parts[idx + 1:])
    open(p, "w").write(s2)
    if rel.endswith(".py"):
        import ast; ast.parse(s2)
    for pr in props:
        r = subprocess.run(["/verif/vcheck", pr, "--root", tmp], capture_output=True, text=True, env={**os.environ, "VERIF_NO_EVIDENCE": "1"})
        lines = [l for l in r.stdout.splitlines() if l.startswith(("VIOLATION", "ANALYSIS-ERROR", "[FAIL]"))]
        print(f"== {pr}: exit {r.returncode}")
        if os.environ.get("MUT_RECORD"):
            import json
            rules = sorted({l.split()[2] for l in r.stdout.splitlines() if l.startswith("[FAIL]") and len(l.split()) > 2})
            with open(os.environ["MUT_RECORD"], "a") as fh:
                fh.write(json.dumps({"file": rel, "old": old, "new": new, "index": idx, "prop": pr, "exit": r.returncode, "rules": rules}) + "\n")
        for l in lines[:6]: print("   ", l[:400])
        if r.returncode == 2: print(r.stdout[-1500:], r.stderr[-1500:])
finally:
    shutil.rmtree(tmp, ignore_errors=True)
