#!/usr/bin/env python3
"""keep_refactoring.py <ID> [offset]: file the behaviour-preserving refactorings a sub-agent left in /tmp/seed/<ID>r/out as
/verif/refactorings/<ID>-<k>/ (patch.diff, same.py, before/after output, meta.json).  Each is a must-stay-silent variant of
the self-test for every registered check; `allowed_errors` lists checks that may answer exit 2 (analysis cannot read the new
form) - recorded, never a verdict."""
import json, os, shutil, subprocess, sys
VERIF = os.path.dirname(os.path.dirname(os.path.abspath(__file__)))
pid = sys.argv[1]
off = int(sys.argv[2]) if len(sys.argv) > 2 else 0  # second round: offset 4 -> <ID>-5..8
src = f"/tmp/seed/{pid}r/out"
meta = json.load(open(os.path.join(src, "meta.json")))
for k0, m in enumerate(meta, 1):
    k = k0 + off
    patch = os.path.join(src, f"refactor_{k0}.diff")
    if not os.path.exists(patch):
        continue
    d = os.path.join(VERIF, "refactorings", f"{pid}-{k}")
    os.makedirs(d, exist_ok=True)
    shutil.copy(patch, os.path.join(d, "patch.diff"))
    for a, b in ((f"same_{k0}.py", "same.py"), (f"same_{k0}.before.txt", "same.before.txt"), (f"same_{k0}.after.txt", "same.after.txt")):
        if os.path.exists(os.path.join(src, a)):
            shutil.copy(os.path.join(src, a), os.path.join(d, b))
    r = subprocess.run(["python3", os.path.join(VERIF, "tools", "seed_checks.py"), patch], capture_output=True, text=True)
    last = r.stdout.strip().splitlines()[-1]
    fired = eval(last.split("fired:")[1].split("errors:")[0].strip())
    errors = eval(last.split("errors:")[1].strip())
    same = os.path.exists(os.path.join(d, "same.before.txt")) and open(os.path.join(d, "same.before.txt")).read() == open(os.path.join(d, "same.after.txt")).read()
    out = {"property": pid, "k": k, "file": m.get("file"), "function": m.get("function"), "kind": m.get("kind"), "what": m.get("what"), "why_equivalent": m.get("why_equivalent"),
           "tests": m.get("tests"), "outputs_identical": same, "alarms": fired, "allowed_errors": errors}
    json.dump(out, open(os.path.join(d, "meta.json"), "w"), indent=1)
    print(f"{pid}-{k}: alarms {fired} errors {errors} outputs identical {same}")
