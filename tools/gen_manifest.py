#!/usr/bin/env python3
"""Regenerate /verif/MANIFEST.json from the table below (claimed checks) - run after adding a property."""
import json
import os
import sys

VERIF = os.path.dirname(os.path.dirname(os.path.abspath(__file__)))
sys.path.insert(0, VERIF)

ADDED_SESSION6 = {
    "C01": "STATE.solver-per-query on the shared short cut (a solver kept on the operator beyond the call is empty again at every exit).",
    "C03": "W.decision short cuts on an empty family of correction sets, evaluated against the comparison on all pairs of families with that emptiness.",
    "C06": "DIAG.flags also over partitions without layers (the strict partition of the empty base is falsy but not False).",
    "C09": "KEY.no-reserved of the c-inference query variables.",
    "C10": "QUERIES.forward (the query container keeps keys, order and signature of what it was built from; by evaluation on concrete mappings).",
    "C12": "MCS.loop (no stop on the cost of a model) and CNF.roles (query CNFs not looked up by printed text).",
    "C14": "TIMEOUT.flow on finally blocks (no return/break/continue that discards an expiry in flight); TIMEOUT.int (the timeout handed to z3 cannot be a float).",
    "C15": "MCS.loop: no family returned without a solver call, explored also on a WCNF without soft clauses; CNF.roles on a state left by an earlier call (every conditional is translated anew).",
    "C16": "RANK.all (compute_all_ranks over every state of lazy computation), FACT.shape signature of the ranked base, RANK.min memo audit on subclass overrides.",
    "C17": "RANK.all; CREP.system (the constraint system is not looked up under the base object); cond.index is modelled as unrelated to the key (FRONT.wiring reads eta by key).",
    "C18": "ACCEPT.decision: both formula ranks are taken on the ranking object itself.",
    "C19": "REV.relation parameters also for values fixed to 0 (fixedness is membership, not truthiness of the value).",
    "C20": "SAVE.unchanged (no write to self before the file operations of save_metadata / export_impacts); STATE.pickled round trip on a small concrete object for subclasses that override __getstate__ / __setstate__.",
}

ADDED_SESSION7 = {
    "C01": "STATE.slots (create_epistemic_state keeps the caller's base with every conditional and every argument in its slot); per-query isolation (STATE.solver-per-query on every operator entry, OBJ.identity).",
    "C02": "STATE.slots; per-query isolation (a solver kept in the state is empty again at every exit of a query, also the exceptional ones).",
    "C03": "STATE.slots; per-query isolation; CNF.pool (no second id pool in the state); MCS.violated on clause tables whose owners share clauses; PART.partition second call on a base whose conditional was replaced.",
    "C04": "STATE.slots; per-query isolation; CNF.pool (no second id pool); MCS.violated with shared clauses; PART.partition second call.",
    "C05": "STATE.slots; per-query isolation; C.query-edges: no query constraint is returned on a path that did not compute both families of correction sets (unless the one computed was found empty); CNF.pool second pool.",
    "C06": "FACT.shape: no fact is skipped; MANAGER.init (the state refused or accepted is the manager's own, in its mode); PART.partition second call on a changed base.",
    "C07": "OBJ.identity (a rule stated twice counts twice in both back-ends); CNF.pool second pool; PART.partition second call.",
    "C10": "WRAP.chain (the query template holds the caller's text once inside a well-formed dummy base; parse_queries_from_str / parseCKB / visitCkbs / visitConditionals evaluated with grammar and visitor summarised or on concrete trees); REJECT.template (texts with the keyword conditionals never reach the template); REJECT.input on parseCKB.",
    "C11": "per-query isolation (a constraint object kept across queries is one back-end's private history).",
    "C12": "Z3.translate, W.ignore, LEX.ignore (a conditional listed twice counts twice; the layers left out of a correction-set computation do not depend on the listing order); PART.partition second call.",
    "C13": "QUERIES.forward (rows carry the keys of the container the caller built); TIMEOUT.row time column.",
    "C14": "C.query-edges result without a family (an expiry seen between the two sides of the c-inference query ends flagged, never in an answer from one side); TIMEOUT.row: the time column of a flagged row is a number.",
    "C15": "CNF.pool: no second id pool in the state; MCS.violated on clause tables whose owners share clauses.",
    "C16": "ZRANK.recursion start index with the metadata store of unknown content; ACCEPT.decision on every subclass that spells out conditional_acceptance; FACT.shape no fact skipped; FACTORY.dispatch (create_preocf).",
    "C17": "C.minima-roles of compile_constraint; C.query-edges result without a family; MCS.violated with shared clauses; ACCEPT.decision on subclass overrides; IMPACTS.observe (save_impacts hands out the vector the object holds, unchanged); FACTORY.dispatch.",
    "C18": "CUSTOM.init (explicit signature names the bit positions; ranks and conditionals forwarded); ACCEPT.decision: tests of the query's own attributes (weak) are cases of the input; FACTORY.dispatch.",
    "C20": "STATE.pickled: __setstate__ on a concrete state with a partial rank table gives back exactly that table; IMPACTS.observe.",
}

LEVEL_TEXT = ("static conformance of the code's shape to the obligation table of the clauses listed in DESIGN.md "
              "section 4 for this property: every rule instance is extracted from /repo's working tree on each run by the "
              "path-sensitive effect extractor (abstract interpretation with uninterpreted branch predicates, no solver) or "
              "by syntax-tree / call-graph rules, and compared with a table written from the property statement. It decides "
              "the clauses named in the note - necessary conditions of the behaviour - for all inputs at once; behaviour "
              "beyond those clauses (solver correctness, the cited theorems) is not decided.")

CLAIMED = {
    "C01": ("§4 C01", "decides: C01.negation, C01.polarity, C01.mode-arg, KEY.no-reserved (the negated query's key cannot collide with a key of "
                      "the base), SHORTCUT.guard, SHORTCUT.dominance, DISPATCH, PART.* on `consistency`. Assumes: Goldszmidt-Pearl equivalence, SAT solver correctness, API semantics tables in vlib/models.py",
            "abstract interpretation (path-sensitive effect/decision extraction) + truth-table comparison + who-may-call"),
    "C06": ("§4 C06", "decides: PART.context/split/balance/terminal/advance/entry/siblings on both partition variants, REFUSE, PREPROC.once, "
                      "who-may-call of the preprocessing hook. Assumes: uniqueness theorem of the tolerance partition, solver correctness, "
                      "refusal is an `assert` (active under default interpreter flags). Also DIAG.flags (all four modes of "
                      "consistency_diagnostics, evaluated over partition/∅ outcomes and last-layer sizes 0..2) and FACT.shape (fact conditionals, fresh keys above "
                      "the highest key of the base, the base handed in is left untouched), STATE.init-preserves",
            "abstract interpretation (solver-scope typestate, decision tables) + sibling cross-check + who-may-call"),
}

CLAIMED.update({
    "C02": ("§4 C02", "decides: Z.partition-flow, Z.layer-assert, Z.tests, Z.decision (table over v, f, k=0), Z.start (incl. answers given in front of "
                      "the recursion must follow from the query alone), SHORTCUT.*, DISPATCH, PART.* "
                      "on `consistency`. Assumes: partition theorem, SAT solver correctness, API tables",
            "abstract interpretation (solver-scope typestate, decision table) + truth-table comparison"),
    "C03": ("§4 C03", "decides for both back-ends: W.soft/hard, W.ignore, W.subset-test (evaluated on all families over {∅,{1},{2},{1,2}}), W.decision "
                      "incl. recursion constraints, W.balance, W.start, W.query-slot, SHORTCUT.*, DISPATCH, PART.*; the enumeration is used through "
                      "the summary whose obligations (CNF.*, MCS.*, Z3MCS.*) are discharged in the same check. Assumes: SWinf correctness theorem, "
                      "MaxSAT solver correctness",
            "abstract interpretation (WCNF/Optimize item sets, generic-loop exit analysis) + finite-model evaluation of the subset predicate"),
    "C04": ("§4 C04", "decides for both back-ends: LEX.soft/hard, LEX.strict-shortcuts, LEX.cardinality (evaluated over all cardinalities 0..2), "
                      "LEX.tie-quantifier and LEX.tie-constraints (two abstract witnesses per side, Rec uninterpreted), LEX.start, SHORTCUT.*, "
                      "DISPATCH, PART.*, CNF.*, MCS.*, Z3MCS.*. Assumes: as C03",
            "abstract interpretation + two-witness instantiation of the tie loops + decision-table comparison"),
    "C15": ("§4 C15", "decides: CNF.roles, CNF.literals, CNF.constants (incl. handling, on witness goals), CNF.pool (helper constructors evaluated on a state with and without the slots), MCS.violated (evaluated on 72 concrete clause tables / models / ignore lists, second call on one object), MCS.block, "
                      "MCS.minimal (three abstract sets, ⊆ uninterpreted), MCS.loop, CACHE.readonly for clauses. Assumes: z3's tseitin-cnf tactic "
                      "preserves satisfiability per assignment of the original atoms; RC2 returns optimal models",
            "abstract interpretation of the encoder and of the enumeration loop + witness instantiation"),
})

CLAIMED.update({
    "C05": ("§4 C05", "decides: C.minima-roles, C.relations (linear forms: η_i − mv_i + mf_i > 0, η_i ≥ 0, minima encoding, query constraint, answer "
                      "polarity, one summand Σ η_j per correction set), C.query-edges, C.empty-minimum, C.selffulfilling, KEY.no-positional on the "
                      "η/mv/mf name families, KEY.no-reserved on the query's mv/mf names, C.preprocess-flow (CNFs, minima, base constraints in that order, kept in the state), CNF.*, MCS.* (the enumeration summary is discharged in the same check). Assumes: the compilation "
                      "theorem (von Berg et al.), SMT solver correctness",
            "abstract interpretation + canonical linear forms + provenance qualifiers of indices"),
    "C07": ("§4 C07", "decides for p-entailment, System Z, System W (rc2, z3), lex (rc2, z3): EXT.inf-hard, EXT.vacuity (guards compared over "
                      "satisfiability patterns), EXT.start-total (integer reasoning over len(P) ≥ 1), EXT.only-infinity, EXT.pinf, and the "
                      "recursion obligations on the generic head (Z.*), W.* / LEX.* of the recursions below the infinity layer, Z3MCS.*, CNF.*, MCS.*, MANAGER.init (the mode flag reaches the state), SHORTCUT.guard in every mode, STATE.solver-per-query (nothing asserted for one query stays for the next). Assumes: semantic adequacy of the extended definitions",
            "abstract interpretation + guard equivalence over satisfiability patterns + small integer reasoning"),
    "C09": ("§4 C09", "decides three clauses only: D1 SHORTCUT.guard/dominance, D2 the per-operator decision SAT(A∧¬B)∧UNSAT(A∧B) ⇒ False "
                      "(Z.decision, W.subset-test rows with V=∅, LEX.cardinality, LEX.strict-shortcuts), D3 CNF.roles/literals/constants and Z.start / W.start / LEX.start (direct inference needs every layer reached). Not "
                      "decided: And, Or, cautious monotony, Cut, rational monotony, LLE, RW (relations between answers of different queries)",
            "composition of the operator rules (abstract interpretation, decision tables)"),
    "C11": ("§4 C11", "decides: BACKEND.dispatch (evaluated on the concrete names rc2, rc2-g3, rc2-g4, rc2-cd, rc2-m22, rc2-mgh), MANAGER.init, OBJ.identity (conditionals compare by identity), DISPATCH, W.siblings / LEX.siblings / EXT.siblings (both implementations "
                      "discharge one obligation table on a common abstract form), Z3.translate, Z3MCS.*, MCS.*. Assumes: the solvers agree",
            "sibling cross-check on a common abstract form (abstract interpretation of both implementations)"),
    "C12": ("§4 C12", "decides: KEY.no-reserved, KEY.no-positional, NONINTERF, OBJ.identity, and what listing order can reach: *.balance, LEX.tie-constraints, W.decision, C.selffulfilling, C.relations, CNF.constants, MCS.minimal (clause counts differ between equivalent formulas), shared parameter defaults never changed in place, PART.partition evaluated with key 0 among the keys. Not decided: invariance under reordering, atom renaming and "
                      "equivalent rewriting (semantic)",
            "provenance qualifiers of keys and indices carried by the abstract values + non-interference audit of decisions and answers"),
    "C13": ("§4 C13", "decides: STATE.lifetime, STATE.solver-per-query, STATE.init-preserves, ROWS.key, ROWS.columns, ROWS.order (rows in submission order), TIMEOUT.per-query, CNF.roles on a state with unknown earlier content (no presentation-keyed memo), PAR.key (workers, stores and the returned mapping read as values), PAR.join (workers and the manager process), QUERYSLOT.def-before-use (also on "
                      "the state an earlier query left behind), CACHE.readonly, PREPROC.once. Not decided: scheduling of processes, fork semantics",
            "attribute-lifetime audit over the class hierarchy + abstract interpretation of the wrappers (key provenance, process typestate)"),
    "C14": ("§4 C14", "decides: CHECK.three-way, TIMEOUT.flow, TIMEOUT.row (query rows, worker rows, rows after a preprocessing timeout), "
                      "TIMEOUT.guarded-raise (an observed expiry leaves the enumeration by TimeoutError only), CHECK.three-way on every check() of a budgeted optimizer in the operators, exception classes compared by qualified name, nothing of an expired query kept in state, STATE.solver-per-query, "
                      "TIMEOUT.per-query (a deadline per query), nothing but the operator's own error escapes a wrapper, the preprocessing flag of a row is "
                      "the one after this call's preprocessing, converting handlers read only keys every state has, no rows without evaluation unless preprocessing expired, answers in front of the recursion after an observed expiry (W.start / LEX.start), ROWS.columns, PREPROC.once. Not decided: when an expiry "
                      "happens, z3 honouring its timeout",
            "typestate of check()/model() with a three-valued result + handler audit over the call paths + abstract interpretation of the wrappers"),
})

CLAIMED.update({
    "C16": ("§4 C16", "decides: ZRANK.recursion (both copies), WORLD.literals, ZRANK.cache, ZRANK.pure, FACT.shape (both builders), partition "
                      "mode, every entry into the rank recursion (start index, start scope), ZRANK.refuse, DIAG.flags (the diagnostics carried by the refusal) and the arguments of the diagnostics call, a rank only from the descent through the layers (partition mode symbolic), FACTORY.forward, the caller's base left untouched, RANK.min and ACCEPT.decision (acceptance through formula ranks), PART.* on `consistency`. Not decided: equality with the operator's answers, solver",
            "abstract interpretation (solver scopes, decision table, cache typestate) + sibling cross-check"),
    "C17": ("§4 C17", "decides four clauses: CREP.rank, KEY.no-positional between impacts / η names / conditionals, CHECK.three-way and the "
                      "objectives at the constructor, C.relations and C.empty-minimum of the solved system, RANK.min / ACCEPT.decision, and the shape of "
                      "the front enumeration (solver scope, objectives, CHECK.three-way, MODEL.extract on solve_pareto_front), FRONT.wiring of "
                      "c_inference_pareto_front, FACTORY.forward, KEY.no-reserved of the query names, the query side of c-inference (C.query-edges, answer polarity); FRONT.enumeration: the enumeration loop run "
                      "iteration by iteration (bounded) against a stated model of z3's Pareto mode returns for every behaviour of the optimiser - with a single "
                      "objective z3 repeats the optimum and never answers unsat - and returns exactly the reported points. Not decided: "
                      "Pareto minimality of what z3 reports",
            "abstract interpretation + provenance qualifiers of indices + bounded unrolling against an external model of the optimiser"),
    "C18": ("§4 C18", "decides: RANK.min, ACCEPT.decision, MARG.bits, COND.filter, TPO.order (all three by evaluation on concrete worlds with symbolic ranks / free test outcomes / all order types of the ranks), WORLD.literals, FACTORY.forward. Assumes: solver, BitVector",
            "abstract interpretation (accumulator update tables, decision tables, key construction)"),
    "C20": ("§4 C20", "decides three clauses: SAVE.restore (all exits incl. failing open/dump), STATE.pickled (__getstate__/__setstate__ keep every attribute with its full content; an attribute load_ocf leaves as None is not dereferenced by anything a loaded object can run), IMPACTS.keys (export followed by import of what it wrote; size check before replacement), IMPACTS.factory (both init_with_impacts*), IMPACTS.accept (no legitimate vector "
                      "rejected on reload), FORMAT.agree (tables over suffix "
                      "classes x fmt, loader fallbacks followed through exceptional paths). Not decided: pickling across interpreters, equality "
                      "of continued lazy computation",
            "typestate with exceptional exits + writer/reader table agreement"),
})

CLAIMED.update({
    "C10": ("§4 C10", "decides: GRAMMAR.rules (operator table, precedence by alternative order, associativity, conditional/strict forms, read "
                      "from the .g4 files), GRAMMAR.generated (generated parsers agree with the grammar on rules and token vocabulary), "
                      "LEX.skip (incl. non-greedy delimited tokens), LEX.generated (serialized ATN of the generated lexer decoded and compared with "
                      "the grammar: literals, characters, wildcards, greediness, skip actions), VISIT.meaning, VISIT.order (list rules keep "
                      "file order, lose nothing: the visitors evaluated on concrete parse trees of one to four atoms / one to three conditionals), "
                      "VISIT.keys, REJECT.listeners, REJECT.eof (lookahead 1), REJECT.signature (evaluated on 14 atom lists), REJECT.input (every returning path of a wrapper has run the entry rule on the caller's text), PARSE.fresh (no memoised parse result is handed out twice). Not decided: ANTLR runtime",
            "grammar reader + abstract interpretation of the visitors + who-may-call / typestate of the parse entry points"),
})

CLAIMED.update({
    "C19": ("§4 C19", "decides structural clauses: REV.classify / REV.triple-positions (reference, fast and incremental compilation against one "
                      "specification, under every assignment of the classification tests of two concrete conditionals over generic or two "
                      "concrete worlds), MASK.literal / MASK.positions (both copies), REV.incremental (eight add/remove sequences against the "
                      "specification for the current conditionals), REV.one-term, REV.fixed-everywhere (known finding F17a/F17b), REV.relation, "
                      "C.minima-roles, C.empty-minimum, CHECK.three-way, MODEL.extract, REV.entry (wiring of both entry points and of to_csp). "
                      "Not decided: existence, Pareto minimality, the relation to c-representations, z3",
            "abstract interpretation with two-witness instantiation + finite evaluation over all assignments of the uninterpreted "
            "classification tests + canonical linear forms"),
})

NA = {
    "C08": "inclusion between operators is a relation between answers of different operators on the same input that follows from theorems "
           "about their definitions; it has no code-shaped clause of its own - its anchored mechanism (same partition, same "
           "verification/falsification sets) is decided under C02-C04, C07 and C11 (DESIGN.md §4 C08)",
}

PENDING = "check not built yet (work in progress; see DESIGN.md section 4)"


def main():
    props = [json.loads(l)["id"] for l in open(os.path.join(VERIF, "properties.jsonl"))]
    checks = []
    for pid in props:
        if pid in CLAIMED:
            ref, note, tech = CLAIMED[pid]
            if pid in ADDED_SESSION6:
                note = note + " Added in the sixth session: " + ADDED_SESSION6[pid]
            if pid in ADDED_SESSION7:
                note = note + " Added in the seventh session: " + ADDED_SESSION7[pid]
            checks.append({
                "property_id": pid,
                "quick_cmd": f"/verif/vcheck {pid} --tier quick",
                "thorough_cmd": f"/verif/vcheck {pid} --tier thorough",
                "evidence_file": f"/verif/evidence/{pid}.json",
                "replay_cmd_template": f"/verif/vcheck {pid} --replay {{path}}",
                "engine": "vlib",
                "level_claimed": {"category": "other", "text": LEVEL_TEXT, "design_ref": ref},
                "level_note": note,
                "technique": "static analysis: " + tech,
            })
    na = []
    for pid in props:
        if pid in CLAIMED:
            continue
        na.append({"property_id": pid, "reason": NA.get(pid, PENDING)})
    m = {
        "version": 1,
        "setup_cmd": "/venv/bin/python -m compileall -q /verif/vlib >/dev/null 2>&1 || python3 -m compileall -q /verif/vlib >/dev/null 2>&1 || true",
        "hooks": {
            "guard": "INFOCF_VERIF",
            "enable": "none needed: every check parses /repo's working tree with ast and never imports or runs it; the guard is unused",
            "baseline_off_cmd": "cd /repo && /venv/bin/python -m pytest -ra -q -p no:cacheprovider --timeout=900 --continue-on-collection-errors",
            "source_commits": [],
            "add_only": True,
        },
        "engines": [
            {"name": "vlib", "path": "/verif/vlib", "serves_properties": sorted(CLAIMED),
             "kind_free_text": "repository-specific static analyser: ast front end + resolver (E0), truth-table formula evaluator (E1), "
                               "path-sensitive abstract interpreter with generic loops (E2), provenance qualifiers (E3), call-graph rules (E4), "
                               "grammar reader (E5), sibling cross-checker (E6)"},
        ],
        "checks": checks,
        "notes": "exit 0 all obligations discharged (KNOWN-FINDING lines allowed); exit 1 VIOLATION; exit 2 ANALYSIS-ERROR (never a verdict). "
                 "Known findings: /verif/known_findings.json.",
        "not_applicable": na,
    }
    with open(os.path.join(VERIF, "MANIFEST.json"), "w") as fh:
        json.dump(m, fh, indent=1)
    print(f"{len(checks)} checks, {len(na)} not claimed")


if __name__ == "__main__":
    main()
