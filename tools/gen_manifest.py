#!/usr/bin/env python3
"""Regenerate /verif/MANIFEST.json from the table below (claimed checks) - run after adding a property."""
import json
import os
import sys

VERIF = os.path.dirname(os.path.dirname(os.path.abspath(__file__)))
sys.path.insert(0, VERIF)

LEVEL_TEXT = ("static conformance of the code's shape to the obligation table of the clauses listed in DESIGN.md "
              "section 4 for this property: every rule instance is extracted from /repo's working tree on each run by the "
              "path-sensitive effect extractor (abstract interpretation with uninterpreted branch predicates, no solver) or "
              "by syntax-tree / call-graph rules, and compared with a table written from the property statement. It decides "
              "the clauses named in the note - necessary conditions of the behaviour - for all inputs at once; behaviour "
              "beyond those clauses (solver correctness, the cited theorems) is not decided.")

CLAIMED = {
    "C01": ("§4 C01", "decides: C01.negation, C01.polarity, C01.mode-arg, SHORTCUT.guard, SHORTCUT.dominance, DISPATCH, PART.* on "
                      "`consistency`. Assumes: Goldszmidt-Pearl equivalence, SAT solver correctness, API semantics tables in vlib/models.py",
            "abstract interpretation (path-sensitive effect/decision extraction) + truth-table comparison + who-may-call"),
    "C06": ("§4 C06", "decides: PART.context/split/balance/terminal/advance/entry/siblings on both partition variants, REFUSE, PREPROC.once, "
                      "who-may-call of the preprocessing hook. Assumes: uniqueness theorem of the tolerance partition, solver correctness, "
                      "refusal is an `assert` (active under default interpreter flags)",
            "abstract interpretation (solver-scope typestate, decision tables) + sibling cross-check + who-may-call"),
}

NA = {
    "C08": "inclusion between operators is a relation between answers of different operators on the same input that follows from theorems "
           "about their definitions; it has no code-shaped clause of its own - its anchored mechanism (same partition, same "
           "verification/falsification sets) is decided under C02-C04, C07 and C11 (DESIGN.md §4 C08)",
}

PENDING = "check not built yet (work in progress; see DESIGN.md section 4)"


def main():
    props = [json.loads(l)["id"] for l in open(os.path.join(VERIF, "properties.jsonl"))]
    checks = []
    for pid in props:
        if pid in CLAIMED:
            ref, note, tech = CLAIMED[pid]
            checks.append({
                "property_id": pid,
                "quick_cmd": f"/verif/vcheck {pid} --tier quick",
                "thorough_cmd": f"/verif/vcheck {pid} --tier thorough",
                "evidence_file": f"/verif/evidence/{pid}.json",
                "replay_cmd_template": f"/verif/vcheck {pid} --replay {{path}}",
                "engine": "vlib",
                "level_claimed": {"category": "other", "text": LEVEL_TEXT, "design_ref": ref},
                "level_note": note,
                "technique": "static analysis: " + tech,
            })
    na = []
    for pid in props:
        if pid in CLAIMED:
            continue
        na.append({"property_id": pid, "reason": NA.get(pid, PENDING)})
    m = {
        "version": 1,
        "setup_cmd": "/venv/bin/python -m compileall -q /verif/vlib >/dev/null 2>&1 || python3 -m compileall -q /verif/vlib >/dev/null 2>&1 || true",
        "hooks": {
            "guard": "INFOCF_VERIF",
            "enable": "none needed: every check parses /repo's working tree with ast and never imports or runs it; the guard is unused",
            "baseline_off_cmd": "cd /repo && /venv/bin/python -m pytest -ra -q -p no:cacheprovider --timeout=900 --continue-on-collection-errors",
            "source_commits": [],
            "add_only": True,
        },
        "engines": [
            {"name": "vlib", "path": "/verif/vlib", "serves_properties": sorted(CLAIMED),
             "kind_free_text": "repository-specific static analyser: ast front end + resolver (E0), truth-table formula evaluator (E1), "
                               "path-sensitive abstract interpreter with generic loops (E2), provenance qualifiers (E3), call-graph rules (E4), "
                               "grammar reader (E5), sibling cross-checker (E6)"},
        ],
        "checks": checks,
        "notes": "exit 0 all obligations discharged (KNOWN-FINDING lines allowed); exit 1 VIOLATION; exit 2 ANALYSIS-ERROR (never a verdict). "
                 "Known findings: /verif/known_findings.json.",
        "not_applicable": na,
    }
    with open(os.path.join(VERIF, "MANIFEST.json"), "w") as fh:
        json.dump(m, fh, indent=1)
    print(f"{len(checks)} checks, {len(na)} not claimed")


if __name__ == "__main__":
    main()
