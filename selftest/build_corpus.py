#!/usr/bin/env python3
"""Builds selftest/corpus.json: hand-written must-stay-silent rewrites and must-fire edits (this file), plus the
harvested development mutants (selftest/harvested.json).  Run after editing; `python3 -m vlib.selftest` runs it."""
import json
import os

HERE = os.path.dirname(os.path.abspath(__file__))
VARIANTS = []


def V(vid, expect, props, file, old, new, index=0, rules=None, note="", more=()):
    edits = [{"file": file, "old": old, "new": new, "index": index}]
    for f2, o2, n2, i2 in more:
        edits.append({"file": f2, "old": o2, "new": n2, "index": i2})
    v = {"id": vid, "expect": expect, "props": list(props), "edits": edits, "note": note}
    if rules:
        v["rules"] = rules
    VARIANTS.append(v)


CS = "inference/consistency_sat.py"
PART_PROPS = ["C06", "C01", "C02", "C16"]

# ---------------------------------------------------------------------------------- must stay silent
V("s-part-loop-form", "silent", PART_PROPS, CS, "            [s.add_assertion(k) for k in knowledge]\n",
  "            for k in knowledge:\n                s.add_assertion(k)\n", note="comprehension used as statement -> loop")
V("s-part-not-R", "silent", PART_PROPS, CS, "            if R == []:", "            if not R:", note="emptiness test form")
V("s-part-len-R", "silent", PART_PROPS, CS, "            if R == []:", "            if len(R) == 0:", note="emptiness test form")
V("s-part-aug", "silent", PART_PROPS, CS, "                calls += 1\n", "                calls = calls + 1\n", note="augmented assignment expanded")
V("s-part-tolerated-var", "silent", PART_PROPS, CS,
  "                if s.solve():\n                    R.append(c)\n                else:\n                    C.append(c)\n",
  "                tolerated = s.solve()\n                if tolerated:\n                    R.append(c)\n                else:\n                    C.append(c)\n",
  note="test result bound to a local first")
V("s-part-negated-branch", "silent", PART_PROPS, CS,
  "                if s.solve():\n                    R.append(c)\n                else:\n                    C.append(c)\n",
  "                if not s.solve():\n                    C.append(c)\n                else:\n                    R.append(c)\n",
  note="branches swapped with negated test")
V("s-part-knowledge-inline", "silent", PART_PROPS, CS,
  "                    knowledge_sat = s.solve()\n                    if not knowledge_sat:\n",
  "                    if not s.solve():\n", note="local inlined")


def main():
    hv = os.path.join(HERE, "harvested.json")
    vs = list(VARIANTS)
    if os.path.exists(hv):
        vs += json.load(open(hv))["variants"]
    ids = [v["id"] for v in vs]
    assert len(ids) == len(set(ids)), "duplicate variant ids"
    json.dump({"variants": vs}, open(os.path.join(HERE, "corpus.json"), "w"), indent=1)
    print(len(vs), "variants")


if __name__ == "__main__":
    main()
