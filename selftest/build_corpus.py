#!/usr/bin/env python3
"""Builds selftest/corpus.json: hand-written must-stay-silent rewrites and must-fire edits (this file), plus the
harvested development mutants (selftest/harvested.json).  Run after editing; `python3 -m vlib.selftest` runs it."""
import json
import os

HERE = os.path.dirname(os.path.abspath(__file__))
VARIANTS = []


def V(vid, expect, props, file, old, new, index=0, rules=None, note="", more=()):
    edits = [{"file": file, "old": old, "new": new, "index": index}]
    for f2, o2, n2, i2 in more:
        edits.append({"file": f2, "old": o2, "new": n2, "index": i2})
    v = {"id": vid, "expect": expect, "props": list(props), "edits": edits, "note": note}
    if rules:
        v["rules"] = rules
    VARIANTS.append(v)


CS = "inference/consistency_sat.py"
PART_PROPS = ["C06", "C01", "C02", "C16"]

# ---------------------------------------------------------------------------------- must stay silent
V("s-part-loop-form", "silent", PART_PROPS, CS, "            [s.add_assertion(k) for k in knowledge]\n",
  "            for k in knowledge:\n                s.add_assertion(k)\n", note="comprehension used as statement -> loop")
V("s-part-not-R", "silent", PART_PROPS, CS, "            if R == []:", "            if not R:", note="emptiness test form")
V("s-part-len-R", "silent", PART_PROPS, CS, "            if R == []:", "            if len(R) == 0:", note="emptiness test form")
V("s-part-aug", "silent", PART_PROPS, CS, "                calls += 1\n", "                calls = calls + 1\n", note="augmented assignment expanded")
V("s-part-tolerated-var", "silent", PART_PROPS, CS,
  "                if s.solve():\n                    R.append(c)\n                else:\n                    C.append(c)\n",
  "                tolerated = s.solve()\n                if tolerated:\n                    R.append(c)\n                else:\n                    C.append(c)\n",
  note="test result bound to a local first")
V("s-part-negated-branch", "silent", PART_PROPS, CS,
  "                if s.solve():\n                    R.append(c)\n                else:\n                    C.append(c)\n",
  "                if not s.solve():\n                    C.append(c)\n                else:\n                    R.append(c)\n",
  note="branches swapped with negated test")
V("s-part-knowledge-inline", "silent", PART_PROPS, CS,
  "                    knowledge_sat = s.solve()\n                    if not knowledge_sat:\n",
  "                    if not s.solve():\n", note="local inlined")

# ---------------------------------------------------------------------------------- System Z
SZ = "inference/system_z.py"
Z_PROPS = ["C02", "C07", "C09"]
V("s-z-loop-form", "silent", Z_PROPS, SZ, "        [solver.add_assertion(Not(c.make_A_then_not_B())) for c in part]\n",
  "        for c in part:\n            solver.add_assertion(Not(c.make_A_then_not_B()))\n", note="comprehension -> loop")
V("s-z-material", "silent", Z_PROPS, SZ, "[solver.add_assertion(Not(c.make_A_then_not_B())) for c in part]",
  "[solver.add_assertion(c.make_not_A_or_B()) for c in part]", note="¬(A∧¬B) written as ¬A∨B")
V("s-z-decision-restructured", "silent", Z_PROPS, SZ,
  "        if not v:\n            return False\n\n        if f:\n            if partition_index == 0:\n                return False\n            return self._rec_inference(solver, partition_index - 1, query)\n        return True\n",
  "        if v and not f:\n            return True\n        if not v:\n            return False\n        if partition_index == 0:\n            return False\n        return self._rec_inference(solver, partition_index - 1, query)\n",
  note="decision cascade reordered")
V("s-z-tests-swapped", "silent", Z_PROPS, SZ,
  "        solver.push()\n        solver.add_assertion(query.make_A_then_B())\n        v = solver.solve()\n        solver.pop()\n        solver.push()\n        solver.add_assertion(query.make_A_then_not_B())\n        f = solver.solve()\n        solver.pop()\n",
  "        solver.push()\n        solver.add_assertion(query.make_A_then_not_B())\n        f = solver.solve()\n        solver.pop()\n        solver.push()\n        solver.add_assertion(query.make_A_then_B())\n        v = solver.solve()\n        solver.pop()\n",
  note="the two independent tests in the other order")
V("s-z-start-local", "silent", Z_PROPS, SZ,
  "            result = self._rec_inference(\n                solver, len(self.epistemic_state[\"partition\"]) - 1, query\n            )  # type: ignore\n",
  "            last = len(self.epistemic_state[\"partition\"]) - 1\n            result = self._rec_inference(solver, last, query)\n", note="start index in a local")
V("f-z-layer-wrong-formula", "fire", Z_PROPS, SZ, "[solver.add_assertion(Not(c.make_A_then_not_B())) for c in part]", "[solver.add_assertion(c.make_A_then_B()) for c in part]")
V("f-z-not-v-true", "fire", Z_PROPS, SZ, "        if not v:\n            return False\n", "        if not v:\n            return True\n")
V("f-z-terminal-layer", "fire", Z_PROPS, SZ, "            if partition_index == 0:\n                return False\n            return self._rec", "            if partition_index == 1:\n                return False\n            return self._rec")
V("f-z-no-descent", "fire", Z_PROPS, SZ, "return self._rec_inference(solver, partition_index - 1, query)", "return self._rec_inference(solver, partition_index, query)")
V("f-z-start-off-by-one", "fire", ["C02", "C09"], SZ, "solver, len(self.epistemic_state[\"partition\"]) - 1, query", "solver, len(self.epistemic_state[\"partition\"]) - 2, query")
V("f-z-missing-pop", "fire", Z_PROPS, SZ, "        v = solver.solve()\n        solver.pop()\n", "        v = solver.solve()\n")
V("f-z-f-polarity", "fire", Z_PROPS, SZ, "        if f:\n            if partition_index == 0:", "        if not f:\n            if partition_index == 0:")
V("f-z-ext-taut-polarity", "fire", ["C07"], SZ, "            if not taut_solver.solve():\n                return True\n", "            if taut_solver.solve():\n                return True\n")
V("f-z-ext-inf-soft", "fire", ["C07"], SZ, "                solver.add_assertion(c.make_not_A_or_B())\n                solver.push()\n", "                solver.push()\n")

# ---------------------------------------------------------------------------------- System W (rc2)
SW = "inference/system_w.py"
W_PROPS = ["C03", "C11"]
V("s-w-soft-loop", "silent", W_PROPS, SW, "            [wcnf.append(s, weight=1) for s in softc]\n", "            for s in softc:\n                wcnf.append(s, weight=1)\n")
V("s-w-not-result", "silent", W_PROPS, SW, "            if result == False:\n", "            if not result:\n")
V("s-w-intersection", "silent", W_PROPS, SW, "for xi_i in xi_i_set & xi_i_prime_set:", "for xi_i in xi_i_set.intersection(xi_i_prime_set):")
V("s-w-subset-operator", "silent", W_PROPS, SW, "return all(any(a.issubset(b) for a in A) for b in B)", "return all(any(a <= b for a in A) for b in B)")
V("s-w-subset-loops", "silent", W_PROPS, SW, "    return all(any(a.issubset(b) for a in A) for b in B)\n",
  "    for b in B:\n        if not any(a.issubset(b) for a in A):\n            return False\n    return True\n")
V("s-w-difference", "silent", W_PROPS, SW, "for i in frozenset(part) - xi_i:", "for i in frozenset(part).difference(xi_i):")
V("f-w-soft-hard", "fire", W_PROPS, SW, "[wcnf.append(s, weight=1) for s in softc]", "[wcnf.append(s) for s in softc]")
V("f-w-query-sides", "fire", W_PROPS, SW, "        [wcnf.append(c) for c in self.epistemic_state[\"query_v_cnf\"]]\n        [wcnf_prime.append(c) for c in self.epistemic_state[\"query_f_cnf\"]]\n",
  "        [wcnf.append(c) for c in self.epistemic_state[\"query_f_cnf\"]]\n        [wcnf_prime.append(c) for c in self.epistemic_state[\"query_v_cnf\"]]\n")
V("f-w-ignore-inverted", "fire", W_PROPS, SW, "            if sublist != part\n", "            if sublist == part\n")
V("f-w-subset-direction", "fire", W_PROPS, SW, "all(any(a.issubset(b) for a in A) for b in B)", "all(any(b.issubset(a) for a in A) for b in B)")
V("f-w-quantifiers", "fire", W_PROPS, SW, "all(any(a.issubset(b) for a in A) for b in B)", "any(all(a.issubset(b) for a in A) for b in B)")
V("f-w-tie-constraints-swapped", "fire", W_PROPS, SW, "                    for c in self.epistemic_state[\"f_cnf_dict\"][i]\n", "                    for c in self.epistemic_state[\"nf_cnf_dict\"][i]\n")
V("f-w-no-descent", "fire", W_PROPS, SW, "                hard_constraints_new, partition_index - 1, deadline\n", "                hard_constraints_new, partition_index, deadline\n")
V("f-w-result-polarity", "fire", W_PROPS, SW, "            if result == False:\n                return False\n", "            if result == True:\n                return False\n")
V("f-w-preprocess-slots", "fire", W_PROPS, SW, "tseitin_transformation.belief_base_to_cnf(False, True, True)", "tseitin_transformation.belief_base_to_cnf(False, False, True)")
V("f-w-tie-layer0", "fire", W_PROPS, SW, "            if partition_index == 0:\n                return False\n            hard_constraints_new", "            if partition_index == 0:\n                return True\n            hard_constraints_new")
V("f-w-no-subset-exit", "fire", W_PROPS, SW, "        if not any_subset_of_all(xi_i_set, xi_i_prime_set):\n            return False\n", "        if not any_subset_of_all(xi_i_prime_set, xi_i_set):\n            return False\n")

# ---------------------------------------------------------------------------------- lexicographic inference (rc2)
LX = "inference/lex_inf.py"
L_PROPS = ["C04", "C11"]
V("s-lex-min-form", "silent", L_PROPS, LX, "        min_len_v = min(len(xi) for xi in mcs_v)\n", "        min_len_v = min([len(xi) for xi in mcs_v])\n", note="generator -> list")
V("s-lex-compare-flip", "silent", L_PROPS, LX, "        if min_len_v < min_len_f:\n            return True\n        if min_len_f < min_len_v:\n            return False\n",
  "        if min_len_f > min_len_v:\n            return True\n        if min_len_v > min_len_f:\n            return False\n", note="comparisons written the other way round")
V("s-lex-not-result", "silent", L_PROPS, LX, "                if result == False:\n                    beats_all = False\n", "                if not result:\n                    beats_all = False\n")
V("s-lex-order-of-exits", "silent", L_PROPS, LX, "        if min_len_v < min_len_f:\n            return True\n        if min_len_f < min_len_v:\n            return False\n",
  "        if min_len_f < min_len_v:\n            return False\n        if min_len_v < min_len_f:\n            return True\n", note="two exclusive exits swapped")
V("s-lex-soft-loop", "silent", L_PROPS, LX, "            [hard_constraints_v.append(s, weight=1) for s in softc]\n            [hard_constraints_f.append(s, weight=1) for s in softc]\n",
  "            for s in softc:\n                hard_constraints_v.append(s, weight=1)\n                hard_constraints_f.append(s, weight=1)\n")
V("f-lex-strictness", "fire", L_PROPS, LX, "        if min_len_v < min_len_f:\n            return True\n", "        if min_len_v <= min_len_f:\n            return True\n")
V("f-lex-empty-v", "fire", L_PROPS, LX, "        if not mcs_v:\n            logger.debug(\"minimal_correction_subsets not found for verification\")\n            return False\n",
  "        if not mcs_v:\n            logger.debug(\"minimal_correction_subsets not found for verification\")\n            return True\n")
V("f-lex-tie-layer0", "fire", L_PROPS, LX, "        if partition_index == 0:\n            return False\n        # the lexicographic order", "        if partition_index == 0:\n            return True\n        # the lexicographic order")
V("f-lex-exists-forall-swapped", "fire", L_PROPS, LX, "            if beats_all:\n                return True\n\n        return False\n", "            if not beats_all:\n                return False\n\n        return True\n")
V("f-lex-tie-constraint-sides", "fire", L_PROPS, LX, "                    if i in xi_f:\n                        [\n                            hard_constraints_new_f.append(c)\n                            for c in self.epistemic_state[\"f_cnf_dict\"][i]",
  "                    if i in xi_v:\n                        [\n                            hard_constraints_new_f.append(c)\n                            for c in self.epistemic_state[\"f_cnf_dict\"][i]")
V("f-lex-max-instead-of-min", "fire", L_PROPS, LX, "        min_len_f = min(len(xi) for xi in mcs_f)\n", "        min_len_f = max(len(xi) for xi in mcs_f)\n")
V("f-lex-soft-only-v", "fire", L_PROPS, LX, "            [hard_constraints_f.append(s, weight=1) for s in softc]\n", "            [hard_constraints_f.append(s) for s in softc]\n")
V("f-lex-no-descent", "fire", L_PROPS, LX, "                    partition_index - 1,\n                    deadline,\n", "                    partition_index,\n                    deadline,\n")
V("f-lex-filter-min", "fire", L_PROPS, LX, "        min_mcs_f = [xi for xi in mcs_f if len(xi) == min_len_f]\n", "        min_mcs_f = [xi for xi in mcs_f if len(xi) >= min_len_f]\n")

# ---------------------------------------------------------------------------------- c-inference
CI = "inference/c_inference.py"
C_PROPS = ["C05"]
V("s-ci-answer-inline", "silent", C_PROPS, CI, "        satcheck = solver.solve()\n        # print(f'satcheck {satcheck}')\n        return not satcheck\n", "        return not solver.solve()\n")
V("s-ci-selffulfilling-any", "silent", C_PROPS, CI,
  "        selffullfilling = True\n        for conditional in self.epistemic_state[\"belief_base\"].conditionals.values():\n            if is_sat(And(conditional.antecedence, Not(conditional.consequence))):\n                selffullfilling = False\n        if selffullfilling:\n            return False\n",
  "        if not any(is_sat(And(c.antecedence, Not(c.consequence))) for c in self.epistemic_state[\"belief_base\"].conditionals.values()):\n            return False\n",
  note="flag loop -> any()")
V("s-ci-gt-as-lt", "silent", C_PROPS + ["C17"], CI, "            csp.append(GT(eta, mv - mf))\n", "            csp.append(LT(mv - mf, eta))\n", note="a > b written b < a")
V("s-ci-attained-as-or", "silent", C_PROPS + ["C17", "C19"], CI, "    ors = Not(And([LT(mv, i) for i in ssums]))\n", "    ors = Or([GE(mv, i) for i in ssums])\n", note="¬∧(m<s) written ∨(m≥s)",
  more=[(CI, "    Not,\n    Plus,\n", "    Not,\n    Or,\n    Plus,\n", 0)])
V("s-ci-empty-guard-len", "silent", C_PROPS + ["C17"], CI, "            if not fSums[index]:\n                # no world falsifies this conditional: every", "            if len(fSums[index]) == 0:\n                # no world falsifies this conditional: every")
V("s-ci-query-ge-flip", "silent", C_PROPS, CI, "        csp = vM + fM + [GE(mv, mf)]\n", "        csp = vM + fM + [LE(mf, mv)]\n")
V("f-ci-answer-polarity", "fire", C_PROPS, CI, "        return not satcheck\n", "        return satcheck\n")
V("f-ci-acceptance-nonstrict", "fire", C_PROPS + ["C17"], CI, "            csp.append(GT(eta, mv - mf))\n", "            csp.append(GE(eta, mv - mf))\n")
V("f-ci-acceptance-sign", "fire", C_PROPS + ["C17"], CI, "            csp.append(GT(eta, mv - mf))\n", "            csp.append(GT(eta, mf - mv))\n")
V("f-ci-min-roles", "fire", C_PROPS + ["C17"], CI, "            fMin = minima_encoding(mf, fSums[index])\n", "            fMin = minima_encoding(mf, vSums[index])\n")
V("f-ci-minimum-lower-bound", "fire", C_PROPS + ["C17", "C19"], CI, "    ands = [LE(mv, i) for i in ssums]\n", "    ands = [LT(mv, i) for i in ssums]\n")
V("f-ci-minimum-not-attained", "fire", C_PROPS + ["C17", "C19"], CI, "    ands.append(ors)\n", "    pass\n")
V("f-ci-query-strict", "fire", C_PROPS, CI, "        csp = vM + fM + [GE(mv, mf)]\n", "        csp = vM + fM + [GT(mv, mf)]\n")
V("f-ci-query-edge-v-empty", "fire", C_PROPS, CI, "            # No verification MCS but falsification has MCS -> not entailed\n            return [], ", "            # No verification MCS but falsification has MCS -> not entailed\n            return [LE(Int(1), Int(0))], ")
V("f-ci-soft-includes-self", "fire", C_PROPS, CI, "                    if i != j\n", "                    if True\n")
V("f-ci-vmin-fmin-swapped", "fire", C_PROPS, CI, "                if leading_conditional is self.epistemic_state[\"v_cnf_dict\"]:\n                    self.epistemic_state[\"vMin\"][i] = xMins_lst",
  "                if leading_conditional is self.epistemic_state[\"f_cnf_dict\"]:\n                    self.epistemic_state[\"vMin\"][i] = xMins_lst")
V("f-ci-nonneg-dropped", "fire", C_PROPS + ["C17"], CI, "        csp.extend(gteZeros)\n", "        pass\n")
V("f-ci-selffulfilling-polarity", "fire", C_PROPS, CI, "        if selffullfilling:\n            return False\n", "        if selffullfilling:\n            return True\n")
V("f-ci-summation-empty-set", "fire", C_PROPS + ["C17"], CI, "                interim.append(Int(0))  # Or use 0 directly\n", "                interim.append(Int(1))  # Or use 0 directly\n")

# ---------------------------------------------------------------------------------- wrappers (inference.py)
INF = "inference/inference.py"
V("s-inf-shortcut-form", "silent", ["C01", "C09"], INF,
  "        if is_unsat(query.antecedence) or is_unsat(\n            And(query.antecedence, Not(query.consequence))\n        ):\n            logger.debug(\"general_inference query selffullfilling\")\n            return True\n        else:\n            return self._inference(query, weakly, deadline)\n",
  "        if is_unsat(And(query.antecedence, Not(query.consequence))):\n            return True\n        return self._inference(query, weakly, deadline)\n",
  note="UNSAT(A) is subsumed by UNSAT(A∧¬B); else dropped")
V("s-inf-row-local", "silent", ["C13", "C14"], INF, "                result_dict[index] = (index, result, False, time)\n", "                row = (index, result, False, time)\n                result_dict[index] = row\n")
V("s-inf-assert-form", "silent", ["C06"], INF, "        assert cons != False, \"belief base inconsistent\"\n", "        assert cons is not False, \"belief base inconsistent\"\n")
V("f-inf-shortcut-dropped-guard", "fire", ["C01", "C02", "C09"], INF, "        if is_unsat(query.antecedence) or is_unsat(\n            And(query.antecedence, Not(query.consequence))\n        ):", "        if is_unsat(query.antecedence):")
V("f-inf-shortcut-wrong-formula", "fire", ["C01", "C02", "C09"], INF, "            And(query.antecedence, Not(query.consequence))\n        ):\n            logger.debug(", "            And(query.antecedence, query.consequence)\n        ):\n            logger.debug(")
V("f-inf-timeout-row-answer", "fire", ["C14"], INF, "                result_dict[index] = (\n                    index,\n                    False,\n                    True,\n", "                result_dict[index] = (\n                    index,\n                    True,\n                    True,\n")
V("f-inf-timeout-row-flag", "fire", ["C14"], INF, "                result_dict[index] = (\n                    index,\n                    False,\n                    True,\n", "                result_dict[index] = (\n                    index,\n                    False,\n                    False,\n")
V("f-inf-worker-timeout-flag", "fire", ["C14"], INF, "            mp_return_dict[index] = (index, False, True, float(timeout * 1000))\n", "            mp_return_dict[index] = (index, False, False, float(timeout * 1000))\n")
V("f-inf-row-key", "fire", ["C13"], INF, "                result_dict[index] = (index, result, False, time)\n", "                result_dict[str(query)] = (index, result, False, time)\n")
V("f-inf-done-before-work", "fire", ["C13", "C14"], INF,
  "            self._preprocess_belief_base(self.epistemic_state[\"weakly\"], deadline)\n", "            self.epistemic_state[\"preprocessing_done\"] = True\n            self._preprocess_belief_base(self.epistemic_state[\"weakly\"], deadline)\n")
V("f-inf-no-join", "fire", ["C13"], INF, "                    p.terminate()\n                    p.join()  # Ensure the process has terminated\n", "                    p.terminate()\n")
V("f-inf-terminated-row-position", "fire", ["C13"], INF, "                    mp_return_dict[i] = (\n                        i,\n", "                    mp_return_dict[len(mp_return_dict)] = (\n                        i,\n")
V("f-inf-refuse-dropped", "fire", ["C06"], INF, "        assert cons != False, \"belief base inconsistent\"\n", "        pass\n")
V("f-inf-timed-out-preprocessing-answers", "fire", ["C14"], INF, "                i: (i, False, False, 0.0) for i, q in queries.items()\n", "                i: (i, True, False, 0.0) for i, q in queries.items()\n")

# ---------------------------------------------------------------------------------- Tseitin step and enumeration (C15)
TS = "inference/tseitin_transformation.py"
OPT = "inference/optimizer.py"
T_PROPS = ["C15"]
V("s-ts-sign-form", "silent", T_PROPS, TS, "        return sign * expr_id\n", "        return expr_id if sign == 1 else -expr_id\n")
V("s-ts-literals-form", "silent", T_PROPS, TS, "            literals = expr.children() if z3.is_or(expr) else [expr]\n",
  "            if z3.is_or(expr):\n                literals = expr.children()\n            else:\n                literals = [expr]\n")
V("s-ts-constant-order", "silent", T_PROPS, TS, "        if z3.is_true(atom):\n            return not negated\n        if z3.is_false(atom):\n            return negated\n",
  "        if z3.is_false(atom):\n            return negated\n        if z3.is_true(atom):\n            return not negated\n")
V("f-ts-roles-v", "fire", T_PROPS + ["C05"], TS, "                g1 = t(z3.And(antecedence, consequence))\n", "                g1 = t(z3.And(antecedence, z3.Not(consequence)))\n")
V("f-ts-roles-nf", "fire", T_PROPS + ["C03", "C04", "C05"], TS, "                g3 = t(z3.Or(z3.Not(antecedence), consequence))\n", "                g3 = t(z3.Or(antecedence, consequence))\n")
V("f-ts-query-order", "fire", T_PROPS + ["C03", "C04", "C05"], TS, "        return [AB, AnotB]\n", "        return [AnotB, AB]\n")
V("f-ts-sign-dropped", "fire", T_PROPS, TS, "            sign = -1\n            expr = expr.children()[0]\n", "            expr = expr.children()[0]\n")
V("f-ts-constant-true-polarity", "fire", T_PROPS, TS, "        if z3.is_true(atom):\n            return not negated\n", "        if z3.is_true(atom):\n            return negated\n")
V("f-ts-satisfied-clause-kept", "fire", T_PROPS, TS, "            if satisfied:\n                continue\n", "            if satisfied:\n                pass\n")
V("f-ts-slot-mixup", "fire", T_PROPS + ["C03", "C04"], TS, "                f_dict[index] = self.goal2intcnf(g2[0])\n", "                f_dict[index] = self.goal2intcnf(g3[0]) if nf else self.goal2intcnf(g2[0])\n")
V("f-ts-fresh-pool", "fire", T_PROPS, TS, "        if \"pool\" not in epistemic_state:\n            epistemic_state[\"pool\"] = IDPool()\n", "        epistemic_state[\"pool\"] = IDPool()\n")

M_PROPS = ["C15", "C03"]
V("s-mcs-superset-any", "silent", M_PROPS, OPT,
  "        is_superset = False\n        for b in filtered:\n            if b.issubset(a):\n                is_superset = True\n                break\n        if not is_superset:\n            filtered.append(a)\n",
  "        if not any(b.issubset(a) for b in filtered):\n            filtered.append(a)\n", note="flag loop -> any()")
V("s-mcs-superset-operator", "silent", M_PROPS, OPT, "            if b.issubset(a):\n", "            if b <= a:\n")
V("s-mcs-negated-hid", "silent", M_PROPS, OPT, "                new_clause.append(hid * (-1))\n", "                new_clause.append(-hid)\n")
V("s-mcs-copy-form", "silent", M_PROPS + ["C13"], OPT, "                new_clause = clause[:]\n", "                new_clause = list(clause)\n")
V("s-mcs-violated-form", "silent", M_PROPS, OPT, "                    if not any(x in clause for x in model):\n", "                    if all(x not in clause for x in model):\n")
V("f-mcs-superset-direction", "fire", M_PROPS, OPT, "            if b.issubset(a):\n", "            if a.issubset(b):\n")
V("f-mcs-unsorted", "fire", M_PROPS, OPT, "    lst_of_sets = sorted(lst_of_sets, key=len)\n", "    lst_of_sets = list(lst_of_sets)\n")
V("f-mcs-no-copy", "fire", ["C15", "C13"], OPT, "                new_clause = clause[:]\n", "                new_clause = clause\n")
V("f-mcs-block-sign", "fire", M_PROPS, OPT, "                new_clause.append(hid * (-1))\n", "                new_clause.append(hid)\n")
V("f-mcs-helper-clause-dropped", "fire", M_PROPS, OPT, "        return_constraints.append(helper_variables_clause)\n", "        pass\n")
V("f-mcs-ignore-dropped", "fire", M_PROPS, OPT, "                if index in ignore:\n                    continue\n", "                if False:\n                    continue\n")
V("f-mcs-violated-satisfied", "fire", M_PROPS, OPT, "                    if not any(x in clause for x in model):\n", "                    if any(x in clause for x in model):\n")
V("f-mcs-empty-set-continue", "fire", M_PROPS, OPT, "                if not violated:\n                    xMins.append(violated)\n                    break\n", "                if not violated:\n                    break\n")
V("f-mcs-no-blocking", "fire", M_PROPS, OPT, "                [rc2.add_clause(clause) for clause in clauses_to_add]\n", "                pass\n")
V("f-mcs-expiry-swallowed", "fire", ["C14", "C15"], OPT, "                if deadline and deadline.expired():\n                    raise TimeoutError\n", "                if deadline and deadline.expired():\n                    break\n")

# ---------------------------------------------------------------------------------- ranking functions (preocf.py)
PO = "inference/preocf.py"
R_PROPS = ["C18"]
V("s-rank-min-builtin", "silent", R_PROPS + ["C16"], PO, "                if min_rank is None or rank < min_rank:\n                    min_rank = rank\n",
  "                if min_rank is None:\n                    min_rank = rank\n                elif rank < min_rank:\n                    min_rank = rank\n", note="condition split")
V("s-rank-loop-form", "silent", R_PROPS + ["C16"], PO, "            world_symbols = self.symbolize_bitvec(world)\n            [solver.add_assertion(s) for s in world_symbols]\n\n            # Add the formula to check",
  "            for s in self.symbolize_bitvec(world):\n                solver.add_assertion(s)\n\n            # Add the formula to check")
V("s-accept-structure", "silent", R_PROPS + ["C16"], PO, "        if v_rank is None:\n            return False\n\n        if n_rank is None:\n            return True\n\n        return v_rank < n_rank\n",
  "        if v_rank is None:\n            return False\n        return n_rank is None or v_rank < n_rank\n")
V("s-accept-flip", "silent", R_PROPS + ["C16"], PO, "        return v_rank < n_rank\n", "        return n_rank > v_rank\n")
V("s-marg-min-explicit", "silent", R_PROPS, PO, "                    ranks[new_world] = min(curr_rank, world_rank)\n", "                    ranks[new_world] = world_rank if world_rank < curr_rank else curr_rank\n")
V("f-rank-max", "fire", R_PROPS + ["C16"], PO, "                if min_rank is None or rank < min_rank:\n", "                if min_rank is None or rank > min_rank:\n")
V("f-rank-no-pop", "fire", R_PROPS + ["C16"], PO, "            # Pop the scope to remove world-specific constraints\n            solver.pop()\n", "            # Pop the scope to remove world-specific constraints\n")
V("f-rank-formula-dropped", "fire", R_PROPS + ["C16"], PO, "            # Add the formula to check\n            solver.add_assertion(formula)\n", "            # Add the formula to check\n")
V("f-rank-cached-ranks", "fire", R_PROPS + ["C16"], PO, "                rank = self.rank_world(world)\n                if min_rank is None or rank < min_rank:", "                rank = self.ranks[world]\n                if min_rank is None or rank < min_rank:")
V("f-accept-nonstrict", "fire", R_PROPS + ["C16"], PO, "        return v_rank < n_rank\n", "        return v_rank <= n_rank\n")
V("f-accept-sides", "fire", R_PROPS + ["C16"], PO, "        v = conditional.make_A_then_B()\n        n = conditional.make_A_then_not_B()\n", "        v = conditional.make_A_then_not_B()\n        n = conditional.make_A_then_B()\n")
V("f-accept-undefined-v", "fire", R_PROPS + ["C16"], PO, "        if v_rank is None:\n            return False\n", "        if v_rank is None:\n            return True\n")
V("f-marg-keep-wrong-bits", "fire", R_PROPS, PO, "                    if self.signature[i] not in marginalization\n", "                    if self.signature[i] in marginalization\n")
V("f-marg-max", "fire", R_PROPS, PO, "                    ranks[new_world] = min(curr_rank, world_rank)\n", "                    ranks[new_world] = max(curr_rank, world_rank)\n")
V("f-marg-signature", "fire", R_PROPS, PO, "        new_sig = [s for s in self.signature if s not in marginalization]\n", "        new_sig = [s for s in self.signature if s in marginalization]\n")
V("f-world-literal-polarity", "fire", ["C16", "C17", "C18", "C19"], PO, "            Symbol(sig[i], BOOL) if int(bitvec[i]) else Not(Symbol(sig[i], BOOL))\n", "            Not(Symbol(sig[i], BOOL)) if int(bitvec[i]) else Symbol(sig[i], BOOL)\n")

# ---------------------------------------------------------------------------------- System W (z3 back-end)
WZ = "inference/system_w_z3.py"
WZ_PROPS = ["C03", "C11"]
V("s-wz-not-result", "silent", WZ_PROPS, WZ, "            if result == False:\n                return False\n        return True\n", "            if not result:\n                return False\n        return True\n")
V("s-wz-loop-form", "silent", WZ_PROPS, WZ, "            [opt.add(c.make_A_then_not_B()) for c in xi_i]\n", "            for c in xi_i:\n                opt.add(c.make_A_then_not_B())\n")
V("s-wz-check-order", "silent", WZ_PROPS + ["C14"], WZ, "            if check == unsat:\n                return xi_i_set\n            if check != sat:\n                # the optimizer gave up (its timeout carries the remaining budget): no model\n                # is available, report the expiry instead of reading one\n                raise TimeoutError\n",
  "            if check != sat and check != unsat:\n                raise TimeoutError\n            if check == unsat:\n                return xi_i_set\n")
V("s-wz-empty-set-form", "silent", WZ_PROPS, WZ, "            if xi_i == frozenset[Conditional_z3]():\n", "            if not xi_i:\n")
V("f-wz-soft-polarity", "fire", WZ_PROPS, WZ, "            opt.add_soft(conditional.make_A_then_not_B() == False)\n", "            opt.add_soft(conditional.make_A_then_not_B())\n")
V("f-wz-block-conj", "fire", WZ_PROPS, WZ, "            opt.add(Or([c.make_A_then_not_B() == False for c in xi_i]))\n", "            opt.add(And([c.make_A_then_not_B() == False for c in xi_i]))\n",
  more=[(WZ, "from z3 import Optimize, Or,", "from z3 import And, Optimize, Or,", 0)])
V("f-wz-missing-pop", "fire", WZ_PROPS, WZ, "        xi_i_set = self.get_all_xi_i(opt, part)\n        opt.pop()\n", "        xi_i_set = self.get_all_xi_i(opt, part)\n")
V("f-wz-unknown-as-done", "fire", ["C14", "C11"], WZ, "                # is available, report the expiry instead of reading one\n                raise TimeoutError\n", "                # is available, report the expiry instead of reading one\n                return xi_i_set\n")
V("f-wz-violated-read", "fire", WZ_PROPS, WZ, "[c for c in part if is_true(m.eval(c.make_A_then_not_B()))]", "[c for c in part if is_true(m.eval(c.make_A_then_B()))]")
V("f-wz-tie-rest-dropped", "fire", WZ_PROPS, WZ, "            [opt.add(c.make_A_then_not_B() == False) for c in part if c not in xi_i]\n", "")
V("f-wz-timeout-not-set", "silent", ["C14"], WZ, "        if deadline and not deadline.expired():\n            opt.set(timeout=deadline.remaining_ms())\n", "        if deadline:\n            opt.set(timeout=max(deadline.remaining_ms(), 1))\n",
  note="budget passing reformulated (still passes the remaining time)")
V("f-wz-translate-swapped", "fire", WZ_PROPS, "inference/conditional_z3.py", "        return cls(consequence, antecedence, existing.textRepresentation, existing.weak)\n",
  "        return cls(antecedence, consequence, existing.textRepresentation, existing.weak)\n")

# ---------------------------------------------------------------------------------- p-entailment
PE = "inference/p_entailment.py"
P_PROPS = ["C01"]
V("s-pe-max-key", "silent", P_PROPS + ["C12"], PE, "        conditionals[min(conditionals, default=1) - 1] = falsified_query\n", "        conditionals[max(conditionals, default=0) + 1] = falsified_query\n", note="fresh key above instead of below")
V("s-pe-one-call", "silent", P_PROPS + ["C07"], PE,
  "        if not weakly:\n            partition, _ = consistency(extended_bb, solver=solver_name, weakly=False)\n            return partition is False\n\n        # Pinf algorithm for weakly consistent bases\n        partition, _ = consistency(extended_bb, solver=solver_name, weakly=True)\n        if partition is False:\n            return True\n",
  "        partition, _ = consistency(extended_bb, solver=solver_name, weakly=weakly)\n        if not weakly:\n            return partition is False\n        if partition is False:\n            return True\n",
  note="the two partition calls merged, the guard kept")
V("s-pe-eq-false", "silent", P_PROPS, PE, "            return partition is False\n", "            return partition == False\n")
V("s-pe-result-local", "silent", P_PROPS + ["C07"], PE, "            return not solver.solve()\n", "            satisfiable = solver.solve()\n            return not satisfiable\n")
V("f-pe-negation-dropped", "fire", P_PROPS, PE, "        falsified_query = Conditional(Not(query.consequence), query.antecedence, None)\n", "        falsified_query = Conditional(query.consequence, query.antecedence, None)\n")
V("f-pe-negation-sides", "fire", P_PROPS, PE, "        falsified_query = Conditional(Not(query.consequence), query.antecedence, None)\n", "        falsified_query = Conditional(query.antecedence, Not(query.consequence), None)\n")
V("f-pe-polarity", "fire", P_PROPS, PE, "            return partition is False\n", "            return partition is not False\n")
V("f-pe-strict-mode-arg", "fire", P_PROPS, PE, "            partition, _ = consistency(extended_bb, solver=solver_name, weakly=False)\n", "            partition, _ = consistency(extended_bb, solver=solver_name, weakly=True)\n")
V("f-pe-base-not-extended", "fire", P_PROPS, PE, "            partition, _ = consistency(extended_bb, solver=solver_name, weakly=False)\n", "            partition, _ = consistency(belief_base, solver=solver_name, weakly=False)\n")
V("f-pe-no-copy", "fire", ["C13"], PE, "        conditionals = belief_base.conditionals.copy()\n", "        conditionals = belief_base.conditionals\n")
V("f-pe-ext-antecedent", "fire", ["C07"], PE, "            solver.add_assertion(query.antecedence)\n", "            solver.add_assertion(query.consequence)\n")
V("f-pe-ext-polarity", "fire", ["C07"], PE, "            return not solver.solve()\n", "            return solver.solve()\n")
V("f-pe-ext-layer", "fire", ["C07"], PE, "        last_layer = partition[-1]\n", "        last_layer = partition[0]\n")
V("f-pe-ext-material", "fire", ["C07"], PE, "                solver.add_assertion(c.make_not_A_or_B())\n", "                solver.add_assertion(c.make_A_then_B())\n")

# ---------------------------------------------------------------------------------- parser (visitor, wrappers)
MV = "parser/myVisitor.py"
WR = "parser/Wrappers.py"
X_PROPS = ["C10"]
V("s-vis-and-inline", "silent", X_PROPS, MV, "        left = self.visit(ctx.left)\n        right = self.visit(ctx.right)\n        return And(left, right)\n", "        return And(self.visit(ctx.left), self.visit(ctx.right))\n")
V("s-vis-none-test", "silent", X_PROPS, MV, "        if ctx.condition() != None:\n            return [c] + self.visit(ctx.condition())\n        return [c]\n", "        if ctx.condition() is not None:\n            return [c] + self.visit(ctx.condition())\n        return [c]\n")
V("s-vis-top-else", "silent", X_PROPS, MV, "        if v == \"Top\":\n            return Bool(True)\n        if v == \"Bottom\":\n            return Bool(False)\n",
  "        if v == \"Bottom\":\n            return Bool(False)\n        elif v == \"Top\":\n            return Bool(True)\n")
V("f-vis-and-as-or", "fire", X_PROPS, MV, "        return And(left, right)\n", "        return Or(left, right)\n")
V("f-vis-or-operand", "fire", X_PROPS, MV, "        right = self.visit(ctx.right)\n        return Or(left, right)\n", "        right = self.visit(ctx.left)\n        return Or(left, right)\n")
V("f-vis-negation-dropped", "fire", X_PROPS, MV, "        return Not(self.visit(ctx.formula()))\n", "        return self.visit(ctx.formula())\n")
V("f-vis-top-bottom-swapped", "fire", X_PROPS, MV, "        if v == \"Top\":\n            return Bool(True)\n", "        if v == \"Top\":\n            return Bool(False)\n")
V("f-vis-conditional-sides", "fire", X_PROPS, MV, "        c = Conditional(consequent, antecedent, text, weak=False)\n", "        c = Conditional(antecedent, consequent, text, weak=False)\n")
V("f-vis-bar-sides", "fire", X_PROPS, MV, "        consequent = self.visit(ctx.consequent)\n        antecedent = self.visit(ctx.antecedent)\n        text", "        consequent = self.visit(ctx.antecedent)\n        antecedent = self.visit(ctx.consequent)\n        text")
V("f-vis-keys-from-zero", "fire", X_PROPS, MV, "                i: c for i, c in enumerate(self.visit(ctx.condition()), start=1)\n", "                i: c for i, c in enumerate(self.visit(ctx.condition()), start=0)\n")
V("f-vis-duplicate-signature", "fire", X_PROPS, MV, "        if len(signature) != len(set(signature)):\n            raise ValueError(\"Duplicate variables in signature detected\")\n", "")
V("f-vis-reserved-name", "fire", X_PROPS, MV, "        if \"Top\" in signature:\n            raise ValueError(\"Top is not an allowed variable name\")\n", "")
V("f-vis-list-dropped", "fire", X_PROPS, MV, "            return [c] + self.visit(ctx.condition())\n", "            return self.visit(ctx.condition())\n")

V("s-wr-eof-form", "silent", X_PROPS, WR, "    if stream.LA(1) != Token.EOF:\n", "    if not stream.LA(1) == Token.EOF:\n")
V("s-wr-listener-local", "silent", X_PROPS, WR, "    parser.removeErrorListeners()\n    parser.addErrorListener(_ThrowingErrorListener())\n\n    tree = parser.ckbs()",
  "    parser.removeErrorListeners()\n    listener = _ThrowingErrorListener()\n    parser.addErrorListener(listener)\n\n    tree = parser.ckbs()")
V("f-wr-eof-check-dropped", "fire", X_PROPS, WR, "    if stream.LA(1) != Token.EOF:\n        raise Exception(\n            f\"Syntax error: unexpected input after belief base: '{stream.LT(1).text}'\"\n        )\n", "")
V("f-wr-formula-eof-check-dropped", "fire", X_PROPS, WR, "    if tokens.LA(1) != Token.EOF:\n        raise Exception(\n            f\"Syntax error: unexpected input after formula: '{tokens.LT(1).text}'\"\n        )\n", "")
V("f-wr-parser-listener-after", "fire", X_PROPS, WR, "    parser.removeErrorListeners()\n    parser.addErrorListener(_ThrowingErrorListener())\n\n    tree = parser.ckbs()\n",
  "    parser.removeErrorListeners()\n\n    tree = parser.ckbs()\n    parser.addErrorListener(_ThrowingErrorListener())\n")
V("f-wr-default-listener-kept", "fire", X_PROPS, WR, "    lexer.removeErrorListeners()\n    lexer.addErrorListener(_ThrowingErrorListener())\n    tokens = CommonTokenStream(lexer)", "    tokens = CommonTokenStream(lexer)")
V("f-wr-eof-wrong-lookahead", "fire", X_PROPS, WR, "    if stream.LA(1) != Token.EOF:\n", "    if stream.LA(2) != Token.EOF:\n")

# ---------------------------------------------------------------------------------- System Z / c-representation ranking objects
ZR_PROPS = ["C16"]
V("s-zr-else-dropped", "silent", ZR_PROPS, PO, "            if partition_index == 0:\n                return 0\n            else:\n                return self._rec_z_rank(solver, partition_index - 1)\n        else:\n            return partition_index + 1\n",
  "            if partition_index == 0:\n                return 0\n            return self._rec_z_rank(solver, partition_index - 1)\n        return partition_index + 1\n")
V("s-zr-else-added", "silent", ZR_PROPS, PO, "            if partition_index == 0:\n                return 0\n            return self._rec_z_rank(solver, partition_index - 1)\n        return partition_index + 1\n",
  "            if partition_index == 0:\n                return 0\n            else:\n                return self._rec_z_rank(solver, partition_index - 1)\n        else:\n            return partition_index + 1\n")
V("s-zr-material", "silent", ZR_PROPS, PO, "        [solver.add_assertion(Not(c.make_A_then_not_B())) for c in part]\n", "        [solver.add_assertion(c.make_not_A_or_B()) for c in part]\n", index=1)
V("s-zr-cache-test", "silent", ZR_PROPS, PO, "        if force_calculation or self.ranks[world] is None:\n            self.ranks[world] = self.z_part2ocf(world)\n", "        if self.ranks[world] is None or force_calculation:\n            self.ranks[world] = self.z_part2ocf(world)\n")
V("f-zr-rank-off-by-one", "fire", ZR_PROPS, PO, "            return self._rec_z_rank(solver, partition_index - 1)\n        return partition_index + 1\n", "            return self._rec_z_rank(solver, partition_index - 1)\n        return partition_index\n")
V("f-zr-rank-off-by-one-base", "fire", ZR_PROPS, PO, "        else:\n            return partition_index + 1\n", "        else:\n            return partition_index\n")
V("f-zr-start", "fire", ZR_PROPS, PO, "        return self._rec_z_rank(solver, len(self._z_partition) - 1)\n", "        return self._rec_z_rank(solver, len(self._z_partition) - 2)\n")
V("f-zr-layer-formula", "fire", ZR_PROPS, PO, "        [solver.add_assertion(Not(c.make_A_then_not_B())) for c in part]\n", "        [solver.add_assertion(c.make_A_then_B()) for c in part]\n", index=1)
V("f-zr-bottom-rank", "fire", ZR_PROPS, PO, "            if partition_index == 0:\n                return 0\n", "            if partition_index == 0:\n                return 1\n", index=1)
V("f-zr-cache-ignored", "fire", ZR_PROPS, PO, "        if force_calculation or self.ranks[world] is None:\n            self.ranks[world] = self.z_part2ocf(world)\n", "        if force_calculation and self.ranks[world] is None:\n            self.ranks[world] = self.z_part2ocf(world)\n")
V("f-zr-no-descent", "fire", ZR_PROPS, PO, "            return self._rec_z_rank(solver, partition_index - 1)\n        return partition_index + 1\n", "            return self._rec_z_rank(solver, partition_index)\n        return partition_index + 1\n")
CR_PROPS = ["C17"]
V("s-cr-solver-per-cond", "silent", CR_PROPS, PO, "            for sym in world_symbols:\n                solver.add_assertion(sym)\n", "            [solver.add_assertion(sym) for sym in world_symbols]\n", index=1)
V("s-cr-aug-expanded", "silent", CR_PROPS, PO, "                rank += self._impacts[position]\n", "                rank = rank + self._impacts[position]\n", index=1)
V("f-cr-key-index", "fire", CR_PROPS, PO, "        for position, cond in enumerate(self.conditionals.values()):\n            solver = Solver(name=\"z3\")\n", "        for position, cond in self.conditionals.items():\n            solver = Solver(name=\"z3\")\n", index=1)
V("f-cr-verification", "fire", CR_PROPS, PO, "            solver.add_assertion(cond.make_A_then_not_B())\n            if solver.solve():\n                rank += self._impacts[position]", "            solver.add_assertion(cond.make_A_then_B())\n            if solver.solve():\n                rank += self._impacts[position]", index=1)
V("f-cr-polarity", "fire", CR_PROPS, PO, "            if solver.solve():\n                rank += self._impacts[position]\n", "            if not solver.solve():\n                rank += self._impacts[position]\n", index=1)
V("f-cr-off-by-one", "fire", CR_PROPS, PO, "                rank += self._impacts[position]\n", "                rank += self._impacts[position - 1]\n", index=1)
V("f-cr-world-dropped", "fire", CR_PROPS, PO, "            for sym in world_symbols:\n                solver.add_assertion(sym)\n", "", index=1)

# ---------------------------------------------------------------------------------- persistence (C20)
S_PROPS = ["C20"]
V("s-save-suffix-local", "silent", S_PROPS, PO, "        if path.suffix.lower() == \".json\":\n            target_fmt = \"json\"\n        elif path.suffix.lower() in {\".pkl\", \".pickle\"}:\n",
  "        suffix = path.suffix.lower()\n        if suffix == \".json\":\n            target_fmt = \"json\"\n        elif suffix in {\".pkl\", \".pickle\"}:\n")
V("s-save-restore-getattr", "silent", S_PROPS, PO, "            for attr, value in non_picklable_backups.items():\n                setattr(self, attr, value)\n", "            for attr in non_picklable_backups:\n                setattr(self, attr, non_picklable_backups[attr])\n")
V("f-save-no-finally", "fire", S_PROPS, PO, "        try:\n            with path.open(\"wb\") as fd:\n                pickle.dump(self, fd, protocol=protocol)\n        finally:\n            # Restore all non-picklable objects\n            for attr, value in non_picklable_backups.items():\n                setattr(self, attr, value)\n",
  "        with path.open(\"wb\") as fd:\n            pickle.dump(self, fd, protocol=protocol)\n        for attr, value in non_picklable_backups.items():\n            setattr(self, attr, value)\n")
V("f-save-restore-partial", "fire", S_PROPS, PO, "            for attr, value in non_picklable_backups.items():\n                setattr(self, attr, value)\n", "            for attr, value in list(non_picklable_backups.items())[:1]:\n                setattr(self, attr, value)\n")
V("s-meta-load-suffix", "silent", S_PROPS, PO, "        if suffix == \".json\":\n            data = json.loads(path.read_text())\n", "        if suffix == \".jsn\":\n            data = json.loads(path.read_text())\n",
  note="a .json file then takes the content-sniffing branch, which reads JSON first: the round trip is unchanged")
V("s-meta-save-default", "silent", S_PROPS, PO, "        else:\n            target_fmt = fmt\n\n        if target_fmt == \"pickle\":\n            with path.open(\"wb\") as fd:\n                pickle.dump(self._metadata, fd)",
  "        else:\n            target_fmt = \"pickle\" if fmt == \"json\" else \"json\"\n\n        if target_fmt == \"pickle\":\n            with path.open(\"wb\") as fd:\n                pickle.dump(self._metadata, fd)",
  note="for names without a telling suffix the loader sniffs the content, so either format round-trips")
V("f-meta-load-no-fallback", "fire", S_PROPS, PO, "            try:\n                data = json.loads(raw)\n            except ValueError:\n                data = pickle.loads(raw)\n", "            data = pickle.loads(raw)\n")
V("s-impacts-negative-accepted", "silent", S_PROPS, PO, "        if any(x < 0 for x in impacts):\n            raise ValueError(\"Impact values must be non-negative\")\n", "",
  note="C20 is about round trips; accepting more vectors does not break one")
V("f-impacts-zero-rejected", "fire", S_PROPS, PO, "        if any(x < 0 for x in impacts):\n", "        if any(x <= 0 for x in impacts):\n")

# ---------------------------------------------------------------------------------- lexicographic inference (z3 back-end)
LZ = "inference/lex_inf_z3.py"
LZ_PROPS = ["C04", "C11"]
V("s-lz-min-generator", "silent", LZ_PROPS, LZ, "        v = min([len(s) for s in xi_i_set])\n", "        v = min(len(s) for s in xi_i_set)\n")
V("s-lz-exits-swapped", "silent", LZ_PROPS, LZ, "        if f < v:\n            return False\n        if v < f:\n            return True\n", "        if v < f:\n            return True\n        if f < v:\n            return False\n")
V("s-lz-not-result", "silent", LZ_PROPS, LZ, "                if result == False:\n                    beats_all = False\n", "                if not result:\n                    beats_all = False\n")
V("s-lz-pop-order", "silent", LZ_PROPS, LZ, "                opt_v.pop()\n                opt_f.pop()\n                if result == False:", "                opt_f.pop()\n                opt_v.pop()\n                if result == False:")
V("f-lz-strictness", "fire", LZ_PROPS, LZ, "        if v < f:\n            return True\n", "        if v <= f:\n            return True\n")
V("f-lz-empty-f", "fire", LZ_PROPS, LZ, "            logger.debug(\"no verification mcs\")\n            return True\n", "            logger.debug(\"no verification mcs\")\n            return False\n")
V("f-lz-tie-layer0", "fire", LZ_PROPS, LZ, "        if partition_index == 0:\n            return False\n        # the lexicographic order", "        if partition_index == 0:\n            return True\n        # the lexicographic order")
V("f-lz-missing-pop", "fire", LZ_PROPS, LZ, "                opt_v.pop()\n                opt_f.pop()\n                if result == False:", "                opt_v.pop()\n                if result == False:")
V("f-lz-f-side-uses-v-set", "fire", LZ_PROPS, LZ, "                [opt_f.add(c.make_A_then_not_B()) for c in xi_i_prime]\n", "                [opt_f.add(c.make_A_then_not_B()) for c in xi_i]\n")
V("f-lz-filter-min", "fire", LZ_PROPS, LZ, "            for xi_i_prime in [s for s in xi_i_prime_set if len(s) == f]:\n", "            for xi_i_prime in [s for s in xi_i_prime_set if len(s) >= f]:\n")
V("f-lz-quantifier", "fire", LZ_PROPS, LZ, "            if beats_all:\n                return True\n        return False\n", "            if not beats_all:\n                return False\n        return True\n")
V("f-lz-query-sides", "fire", LZ_PROPS, LZ, "        opt_v.add(query.make_A_then_B())\n", "        opt_v.add(query.make_A_then_not_B())\n")
V("f-lz-ext-f-not-hard", "fire", ["C07", "C11"], LZ, "                opt_f.add(c.make_not_A_or_B())\n", "                pass\n")

# ---------------------------------------------------------------------------------- manager
IM = "inference/inference_manager.py"
V("s-im-row-local", "silent", ["C13", "C14"], IM, "            df.at[index, \"index\"] = results[key][0]\n            df.at[index, \"result\"] = results[key][1]\n",
  "            row = results[key]\n            df.at[index, \"index\"] = row[0]\n            df.at[index, \"result\"] = row[1]\n")
V("f-im-row-by-position", "fire", ["C13"], IM, "            df.at[index, \"result\"] = results[key][1]\n", "            df.at[index, \"result\"] = results[index][1]\n")
V("f-im-row-by-text", "fire", ["C13"], IM, "            df.at[index, \"result\"] = results[key][1]\n", "            df.at[index, \"result\"] = results[str(query)][1]\n")
V("f-im-timeout-column", "fire", ["C14"], IM, "            df.at[index, \"inference_timed_out\"] = results[key][2]\n", "            df.at[index, \"inference_timed_out\"] = results[key][1]\n")
V("f-im-dispatch-lex", "fire", ["C04", "C11"], IM, "            inference_instance = LexInfZ3(epistemic_state)\n", "            inference_instance = SystemWZ3(epistemic_state)\n")
V("f-im-dispatch-z", "fire", ["C02"], IM, "        inference_instance = SystemZ(epistemic_state)\n", "        inference_instance = PEntailment(epistemic_state)\n")
V("f-im-dispatch-backend-test", "fire", ["C11", "C03"], IM, "        if epistemic_state[\"pmaxsat_solver\"] == \"z3\":\n            inference_instance = SystemWZ3(epistemic_state)\n", "        if epistemic_state[\"pmaxsat_solver\"] != \"z3\":\n            inference_instance = SystemWZ3(epistemic_state)\n")

# ---------------------------------------------------------------------------------- rules added after the second seeding round
CRV = "inference/c_revision.py"
V("f-tpo2ranks-start1", "fire", ["C18"], PO, "    for layer_num, layer in enumerate(tpo):\n", "    for layer_num, layer in enumerate(tpo, start=1):\n")
V("f-tpo2ranks-size", "fire", ["C18"], PO, "            ranks[world] = rank_function(layer_num)\n", "            ranks[world] = rank_function(len(layer))\n")
V("s-tpo2ranks-range", "silent", ["C18"], PO, "    for layer_num, layer in enumerate(tpo):\n        for world in layer:\n            ranks[world] = rank_function(layer_num)\n",
  "    for layer_num in range(len(tpo)):\n        for world in tpo[layer_num]:\n            ranks[world] = rank_function(layer_num)\n", note="index form of the same iteration")
V("f-backend-suffix", "fire", ["C11"], OPT, "[4:]", "[3:]")
V("f-backend-default-bad", "fire", ["C11"], OPT, "sat_solver = \"g3\"", "sat_solver = \"rc2\"")
V("s-backend-default-other", "silent", ["C11"], OPT, "sat_solver = \"g3\"", "sat_solver = \"g4\"", note="another engine as default: answers do not depend on the engine")
V("s-backend-prefix-form", "silent", ["C11"], OPT, "solver_name.startswith(\"rc2\")", "solver_name[:3] == \"rc2\"", note="prefix test written as a slice comparison")
V("f-backend-prefix-wrong", "fire", ["C11"], OPT, "solver_name.startswith(\"rc2\")", "solver_name == \"rc2\"")
V("s-getstate-local", "silent", ["C20"], PO, "        return self.__dict__.copy()\n", "        state = self.__dict__.copy()\n        return state\n")
V("f-getstate-drop-impacts", "fire", ["C20"], PO, "        return self.__dict__.copy()\n", "        state = self.__dict__.copy()\n        state.pop(\"_impacts\", None)\n        return state\n")
V("f-setstate-nothing", "fire", ["C20"], PO, "        self.__dict__.update(state)\n", "        self.__dict__.update({})\n")
V("f-front-positions", "fire", ["C17"], CRV, "    minimize_vars = [f\"eta_{i}\" for i in belief_base.conditionals]\n", "    minimize_vars = [f\"eta_{i}\" for i in range(1, len(belief_base.conditionals) + 1)]\n")
V("f-front-default", "fire", ["C17"], CRV, "sol.get(f\"eta_{i}\", 0)", "sol.get(f\"eta_{i}\", 1)")
V("f-front-unprocessed", "fire", ["C17"], CRV, "    c_inf.preprocess_belief_base(0)\n    csp = c_inf.base_csp\n", "    csp = c_inf.base_csp\n    c_inf.preprocess_belief_base(0)\n")
V("s-front-unsorted-local", "silent", ["C17"], CRV, "    indices = sorted(belief_base.conditionals.keys())\n", "    indices = sorted(belief_base.conditionals)\n")
V("f-manager-swap-backends", "fire", ["C11"], IM, "            belief_base, inference_system, smt_solver, pmaxsat_solver, weakly\n", "            belief_base, inference_system, pmaxsat_solver, smt_solver, weakly\n")
V("f-manager-drop-weakly", "fire", ["C07"], IM, "            belief_base, inference_system, smt_solver, pmaxsat_solver, weakly\n", "            belief_base, inference_system, smt_solver, pmaxsat_solver\n")
V("s-manager-keywords", "silent", ["C07", "C11"], IM, "            belief_base, inference_system, smt_solver, pmaxsat_solver, weakly\n",
  "            belief_base, inference_system, smt_solver=smt_solver, pmaxsat_solver=pmaxsat_solver, weakly=weakly\n")
V("f-cinf-pre-no-nf", "fire", ["C05"], CI, "        tseitin_transformation.belief_base_to_cnf(True, True, True)\n", "        tseitin_transformation.belief_base_to_cnf(True, True, False)\n")
V("f-cinf-pre-order", "fire", ["C05"], CI, "        self.compile_constraint(deadline)\n", "        self.base_csp = self.translate()\n        self.compile_constraint(deadline)\n", index=0)
V("f-single-negative-budget", "fire", ["C14"], "inference/deadline.py", "        return Deadline(perf_counter() + max(0.0, seconds))\n",
  "        if seconds < 0:\n            raise ValueError(\"negative duration\")\n        return Deadline(perf_counter() + seconds)\n")
V("f-manager-sorted-rows", "fire", ["C13"], IM, "enumerate(queries.conditionals.items())", "enumerate(sorted(queries.conditionals.items()))")
V("s-manager-sorted-rows-c14", "silent", ["C14", "C02"], IM, "enumerate(queries.conditionals.items())", "enumerate(sorted(queries.conditionals.items()))", note="row order is C13's clause only")
V("f-rc2-empty-model", "fire", ["C15"], OPT, "                if model is None:\n", "                if not model:\n")
V("f-import-narrow-handler", "fire", ["C20"], PO, "                impact_data = json.loads(raw)\n            except ValueError:\n", "                impact_data = json.loads(raw)\n            except json.JSONDecodeError:\n")
V("s-import-wider-handler", "silent", ["C20"], PO, "                impact_data = json.loads(raw)\n            except ValueError:\n", "                impact_data = json.loads(raw)\n            except Exception:\n")

# ---------------------------------------------------------------------------------- round 3 / campaign 4
V("s-crev-bits-msb", "silent", ["C19"], CRV, "        bits = [int(b) for b in world]\n",
  "        world_int = int(world, 2)\n        n_vars = len(sig_index)\n        bits = [(world_int >> (n_vars - 1 - k)) & 1 for k in range(n_vars)]\n", note="bits decoded arithmetically, most significant first (= string order)")
V("f-crev-bits-lsb", "fire", ["C19"], CRV, "        bits = [int(b) for b in world]\n",
  "        world_int = int(world, 2)\n        n_vars = len(sig_index)\n        bits = [(world_int >> k) & 1 for k in range(n_vars)]\n")
V("s-pent-constant-fold", "silent", ["C01", "C07", "C12"], PE, "        falsified_query = Conditional(Not(query.consequence), query.antecedence, None)\n",
  "        consequence = query.consequence\n        if consequence.is_bool_constant():\n            negated = Bool(not consequence.constant_value())\n        else:\n            negated = Not(consequence)\n        falsified_query = Conditional(negated, query.antecedence, None)\n",
  note="a constant consequence folded correctly", more=[(PE, "from pysmt.shortcuts import Not, Solver", "from pysmt.shortcuts import Bool, Not, Solver", 0)])
V("f-single-row-lost", "fire", ["C13", "C02"], INF, "                result_dict[index] = (index, result, False, time)\n", "                index[index] = (index, result, False, time)\n")
V("f-multi-return-other", "fire", ["C13"], INF, "            return result_dict\n", "            return mp_return_dict\n")
V("f-multi-always-terminate", "fire", ["C13"], INF, "                if p.is_alive():\n                    p.terminate()\n                    p.join()  # Ensure the process has terminated\n                    mp_return_dict[i] = (\n                        i,\n                        False,\n                        True,\n                        0.0,\n                    )\n",
  "                p.terminate()\n                p.join()  # Ensure the process has terminated\n                mp_return_dict[i] = (\n                    i,\n                    False,\n                    True,\n                    0.0,\n                )\n")
V("f-marg-min-same", "fire", ["C18"], PO, "                    ranks[new_world] = min(curr_rank, world_rank)\n", "                    ranks[new_world] = min(world_rank, world_rank)\n")
V("f-facts-max-values", "fire", ["C16"], PO, "            next_index = max(conditionals.keys(), default=0) + 1\n", "            next_index = max(conditionals.values(), default=0) + 1\n")
V("f-lexz3-ext-same-optimizer", "fire", ["C07"], LZ, "                opt_v, opt_f, len(self.epistemic_state[\"partition\"]) - 2, query_z3\n", "                opt_f, opt_f, len(self.epistemic_state[\"partition\"]) - 2, query_z3\n")
V("f-pent-key-min-plain", "fire", ["C01", "C12"], PE, "conditionals[min(conditionals, default=1) - 1] = falsified_query", "conditionals[min(conditionals, default=1)] = falsified_query")
V("f-cnf-clause-leaks", "fire", ["C15"], TS, "        cnf = []\n        for expr in goal:\n            literals = expr.children() if z3.is_or(expr) else [expr]\n            clause = []\n",
  "        cnf = []\n        clause = []\n        for expr in goal:\n            literals = expr.children() if z3.is_or(expr) else [expr]\n", note="the literals of one goal formula leak into the clauses of the next")
V("s-cnf-for-else", "silent", ["C15", "C03", "C05"], TS, "                if value is None:\n                    clause.append(self.expr_to_signed_id(literal))\n                # a false literal contributes nothing\n            if satisfied:\n                continue\n",
  "                if value is None:\n                    clause.append(self.expr_to_signed_id(literal))\n                # a false literal contributes nothing\n            else:\n                satisfied = False\n            if satisfied:\n                continue\n", note="for-else restating the flag")
V("f-save-restore-narrow-handler", "fire", ["C20"], PO, "        finally:\n            # Restore all non-picklable objects\n            for attr, value in non_picklable_backups.items():\n                setattr(self, attr, value)\n",
  "        except (OSError, pickle.PicklingError):\n            for attr, value in non_picklable_backups.items():\n                setattr(self, attr, value)\n            raise\n        for attr, value in non_picklable_backups.items():\n            setattr(self, attr, value)\n", note="restored only for two kinds of failure; a member whose __reduce__ raises anything else leaves the object stripped")
V("s-save-restore-except-reraise", "silent", ["C20"], PO, "        finally:\n            # Restore all non-picklable objects\n            for attr, value in non_picklable_backups.items():\n                setattr(self, attr, value)\n",
  "        except BaseException:\n            for attr, value in non_picklable_backups.items():\n                setattr(self, attr, value)\n            raise\n        for attr, value in non_picklable_backups.items():\n            setattr(self, attr, value)\n", note="restoration on every exit without the word finally")
V("f-front-single-objective", "fire", ["C17"], CRV, "        if len(minimize_vars) == 1:\n            # z3 enumerates a front only for two or more objectives: with a single one every\n            # check() returns the same optimum again, and that optimum is the whole front\n            break\n", "",
  note="F18 reverted: the loop waits for an unsat that z3 never reports for one objective")
V("s-front-repeated-point", "silent", ["C17", "C19"], CRV, "    results: list[dict[str, int]] = []\n    while opt.check() == z3.sat:\n        m = opt.model()\n        results.append(_int_values(m))\n        if len(minimize_vars) == 1:\n            # z3 enumerates a front only for two or more objectives: with a single one every\n            # check() returns the same optimum again, and that optimum is the whole front\n            break\n",
  "    results: list[dict[str, int]] = []\n    seen = set()\n    while opt.check() == z3.sat:\n        values = _int_values(opt.model())\n        point = tuple(values.get(v) for v in minimize_vars)\n        if point in seen:\n            break\n        seen.add(point)\n        results.append(values)\n",
  note="the other repair: stop at a repeated point")
V("f-front-cap-off-by-one", "fire", ["C17"], CRV, "        if max_solutions is not None and len(results) >= max_solutions:\n            break\n\n    return results", "        if max_solutions is not None and len(results) > max_solutions:\n            break\n\n    return results")
V("f-cinf-encoding-break", "fire", ["C05", "C17"], CI, "                # impact is unconstrained (a minimum over no sums would be unsatisfiable)\n                continue\n", "                # impact is unconstrained (a minimum over no sums would be unsatisfiable)\n                break\n",
  note="campaign 5: an unfalsifiable conditional ends the loop: the conditionals after it get no constraint")
V("f-crev-encoding-break", "fire", ["C19"], CRV, "            # are (a minimum over no terms would make the system unsatisfiable)\n            continue\n", "            # are (a minimum over no terms would make the system unsatisfiable)\n            break\n")
V("f-crev-compile-alt-break", "fire", ["C19"], CRV, "            if not v_dict and not f_dict:\n                continue\n", "            if not v_dict and not f_dict:\n                break\n")
V("f-save-skip-first-attr", "fire", ["C20"], PO, "        for attr in non_picklable_attrs:\n            if hasattr(self, attr):\n                non_picklable_backups[attr]", "        for attr in non_picklable_attrs[1:]:\n            if hasattr(self, attr):\n                non_picklable_backups[attr]",
  note="campaign 5: the optimiser stays attached and is pickled along")
V("s-getstate-no-copy", "silent", ["C20"], PO, "        return self.__dict__.copy()\n", "        return self.__dict__\n", note="what the default __getstate__ does")
V("f-shortcut-only-default-mode", "fire", ["C01", "C09"], INF, "        if is_unsat(query.antecedence) or is_unsat(\n            And(query.antecedence, Not(query.consequence))\n        ):\n            logger.debug(\"general_inference query selffullfilling\")\n            return True\n        else:\n            return self._inference(query, weakly, deadline)\n",
  "            if is_unsat(query.antecedence) or is_unsat(\n                And(query.antecedence, Not(query.consequence))\n            ):\n                logger.debug(\"general_inference query selffullfilling\")\n                return True\n        return self._inference(query, weakly, deadline)\n",
  note="campaign 6: the short cut slipped under `if weakly is None:` - a caller that names the mode loses it")
V("f-b2c-f-nested-in-v", "fire", ["C15", "C04"], TS, "            if f:\n                g2 = t(z3.And(antecedence, z3.Not(consequence)))\n                f_dict = cast(\n                    dict[int, list[list[int]]], self.epistemic_state[\"f_cnf_dict\"]\n                )  # type: ignore[assignment]\n                f_dict[index] = self.goal2intcnf(g2[0])\n",
  "                if f:\n                    g2 = t(z3.And(antecedence, z3.Not(consequence)))\n                    f_dict = cast(\n                        dict[int, list[list[int]]], self.epistemic_state[\"f_cnf_dict\"]\n                    )  # type: ignore[assignment]\n                    f_dict[index] = self.goal2intcnf(g2[0])\n",
  note="campaign 6: the falsification CNFs are only built when the verification CNFs are (lex_inf and system-w switch v off)")
V("f-w-result-after-loop", "fire", ["C03"], SW, "            if result == False:\n                return False\n        return True\n", "        if result == False:\n            return False\n        return True\n",
  note="campaign 6: only the tie handled last decides")
V("f-allranks-skip-known", "fire", ["C16", "C17"], PO, "        return {w: self.rank_world(w) for w in self.ranks.keys()}\n",
  "        return {w: self.rank_world(w) for w in self.ranks.keys() if self.ranks[w] is None}\n", note="'all at once' after some worlds were ranked lazily: their entries are missing")
V("f-allranks-stored", "fire", ["C16", "C17"], PO, "        return {w: self.rank_world(w) for w in self.ranks.keys()}\n",
  "        return {w: self.ranks[w] for w in self.ranks.keys()}\n", note="returns the cache (None for unranked worlds) instead of computing")
V("s-allranks-loop", "silent", ["C16", "C17", "C18"], PO, "        return {w: self.rank_world(w) for w in self.ranks.keys()}\n",
  "        out = {}\n        for w in list(self.ranks):\n            out[w] = self.rank_world(w)\n        return out\n", note="loop form")
V("s-queries-copy", "silent", ["C10"], "inference/queries.py", "        self.conditionals = belief_base.conditionals\n", "        self.conditionals = dict(belief_base.conditionals)\n", note="the query container keeps a copy of the mapping")
V("s-queries-comp", "silent", ["C10"], "inference/queries.py", "        self.conditionals = query_dict\n", "        self.conditionals = {k: v for k, v in query_dict.items()}\n")
V("f-queries-renumber", "fire", ["C10"], "inference/queries.py", "        self.conditionals = query_dict\n", "        self.conditionals = dict(enumerate(query_dict.values(), start=1))\n", note="sparse / 0-based keys of a query mapping are renumbered")
V("s-wz3-shortcut-F-empty", "silent", ["C03", "C07", "C09"], "inference/system_w_z3.py", "        if not any_subset_of_all(xi_i_set, xi_i_prime_set):\n",
  "        if not xi_i_prime_set:\n            return True\n        if not any_subset_of_all(xi_i_set, xi_i_prime_set):\n", note="no falsifying correction set: vacuously True, as the comparison says")
V("s-wz3-shortcut-V-empty", "silent", ["C03", "C07", "C09"], "inference/system_w_z3.py", "        if not any_subset_of_all(xi_i_set, xi_i_prime_set):\n",
  "        if not xi_i_set and xi_i_prime_set:\n            return False\n        if not any_subset_of_all(xi_i_set, xi_i_prime_set):\n", note="no verifying set but a falsifying one: False, as the comparison says")
V("f-wz3-shortcut-either-empty", "fire", ["C03"], "inference/system_w_z3.py", "        if not any_subset_of_all(xi_i_set, xi_i_prime_set):\n",
  "        if not xi_i_set or not xi_i_prime_set:\n            return True\n        if not any_subset_of_all(xi_i_set, xi_i_prime_set):\n", note="seed C03-16")
V("f-z3-timeout-division", "fire", ["C14"], "inference/system_w_z3.py", "opt.set(timeout=deadline.remaining_ms())", "opt.set(timeout=deadline.remaining_ms() / 1)", note="a float timeout: Z3Exception instead of an expiry")
V("s-z3-timeout-max-int", "silent", ["C14"], "inference/system_w_z3.py", "opt.set(timeout=deadline.remaining_ms())", "opt.set(timeout=max(1, deadline.remaining_ms()))")
V("f-deadline-ms-float", "fire", ["C14"], "inference/deadline.py", "        return int(self.remaining_seconds() * 1000)\n", "        return self.remaining_seconds() * 1000\n", note="remaining_ms hands a float to z3")
V("f-diag-bool-partition", "fire", ["C06"], "inference/consistency_diagnostics.py", 'diag["belief_base_consistent"] = base_part_std is not False', 'diag["belief_base_consistent"] = bool(base_part_std)', note="seed C06-16: the empty base has the partition []")
V("s-diag-isinstance-list", "silent", ["C06"], "inference/consistency_diagnostics.py", 'diag["belief_base_consistent"] = base_part_std is not False', 'diag["belief_base_consistent"] = isinstance(base_part_std, list)')
_KEPT = ("        if self._selffulfilling(query):\n", '    def _selffulfilling(self, query):\n        solver = self.__dict__.get("_quick_solver")\n        if solver is None:\n            solver = Solver(name=self.epistemic_state["smt_solver"])\n            self._quick_solver = solver\n        solver.push()\n        solver.add_assertion(query.antecedence)\n        if not solver.solve():\n            %s\n            return True\n        solver.add_assertion(Not(query.consequence))\n        selffulfilling = not solver.solve()\n        solver.pop()\n        return selffulfilling\n\n')
for _vid, _exp, _fill in (("s-shortcut-kept-solver-balanced", "silent", "solver.pop()"), ("f-shortcut-kept-solver-leak", "fire", "pass")):
    V(_vid, _exp, ["C01", "C02"], "inference/inference.py",
      "        if is_unsat(query.antecedence) or is_unsat(\n            And(query.antecedence, Not(query.consequence))\n        ):\n", _KEPT[0],
      more=(("inference/inference.py", "from pysmt.shortcuts import And, Not, is_unsat\n", "from pysmt.shortcuts import And, Not, Solver, is_unsat\n", 0),
            ("inference/inference.py", "    def general_inference(", (_KEPT[1] % _fill) + "    def general_inference(", 0)),
      note="the short cut on one solver kept on the operator: scope closed at every exit (silent) / left open by the early return (seed C01-15)")
V("f-savemeta-records-format", "fire", ["C20"], PO, "        if target_fmt == \"pickle\":\n            with path.open(\"wb\") as fd:\n                pickle.dump(self._metadata, fd)\n",
  "        self._metadata[\"metadata_format\"] = target_fmt\n        if target_fmt == \"pickle\":\n            with path.open(\"wb\") as fd:\n                pickle.dump(self._metadata, fd)\n", note="seed C20-15: the object is changed before the write that can fail")
V("s-savemeta-local-copy", "silent", ["C20"], PO, "        if target_fmt == \"pickle\":\n            with path.open(\"wb\") as fd:\n                pickle.dump(self._metadata, fd)\n",
  "        payload = dict(self._metadata)\n        if target_fmt == \"pickle\":\n            with path.open(\"wb\") as fd:\n                pickle.dump(payload, fd)\n", note="a local copy is written; the object is untouched")
VARIANTS.append({"id": "s-pickle-partition-by-key-correct", "expect": "silent", "props": ["C20", "C16"], "patch": os.path.join(HERE, "patches", "pickle-partition-by-key-correct.diff"),
                 "note": "SystemZPreOCF pickles its partition as keys where a conditional has one and as the object otherwise (repaired form of seed C20-16): the round trip gives the partition back"})
V("f-tpo2ranks-return-in-loop", "fire", ["C18"], PO, "            ranks[world] = rank_function(layer_num)\n    return ranks\n", "            ranks[world] = rank_function(layer_num)\n        return ranks\n")
V("s-avg-guard-by-count", "silent", ["C14", "C06", "C13"], INF, "                \"average_query_time_ms\": total_inference_time / len(queries)\n                if queries\n                else 0,\n",
  "                \"average_query_time_ms\": total_inference_time / len(queries)\n                if len(queries)\n                else 0,\n", note="the division guarded by the count instead of the mapping")
V("f-avg-over-answered", "fire", ["C14"], INF, "                \"average_query_time_ms\": total_inference_time / len(queries)\n", "                \"average_query_time_ms\": total_inference_time / successful_queries\n",
  note="round 4: every query expired -> ZeroDivisionError in the log record, the flagged rows never reach the caller")

# ---------------------------------------------------------------------------------- round-3 forms and their broken twins
W_TIE_OLD = '        for xi_i in xi_i_set & xi_i_prime_set:\n            if partition_index == 0:\n                return False\n            hard_constraints_new = hard_constraints.copy()\n            for i in xi_i:\n                [\n                    hard_constraints_new.append(c)\n                    for c in self.epistemic_state["f_cnf_dict"][i]\n                ]\n            for i in frozenset(part) - xi_i:\n                [\n                    hard_constraints_new.append(c)\n                    for c in self.epistemic_state["nf_cnf_dict"][i]\n                ]\n            result = self._rec_inference(\n                hard_constraints_new, partition_index - 1, deadline\n            )\n            if result == False:\n                return False\n        return True\n'
V("s-w-ties-all-returned", "silent", ["C03", "C12"], SW, W_TIE_OLD, '        shared = xi_i_set & xi_i_prime_set\n        if partition_index == 0:\n            return not shared\n        return all(\n            self._rec_inference(self._fixed(hard_constraints, part, xi_i), partition_index - 1, deadline)\n            for xi_i in shared\n        )\n\n    def _fixed(self, hard_constraints, part, xi_i):\n        new = hard_constraints.copy()\n        for i in xi_i:\n            for c in self.epistemic_state["f_cnf_dict"][i]:\n                new.append(c)\n        for i in frozenset(part) - xi_i:\n            for c in self.epistemic_state["nf_cnf_dict"][i]:\n                new.append(c)\n        return new\n', note="the tie loop as all(...) over a helper, the layer-0 answer as `not shared`")
V("f-w-ties-any-returned", "fire", ["C03"], SW, W_TIE_OLD, '        shared = xi_i_set & xi_i_prime_set\n        if partition_index == 0:\n            return not shared\n        return any(\n            self._rec_inference(self._fixed(hard_constraints, part, xi_i), partition_index - 1, deadline)\n            for xi_i in shared\n        )\n\n    def _fixed(self, hard_constraints, part, xi_i):\n        new = hard_constraints.copy()\n        for i in xi_i:\n            for c in self.epistemic_state["f_cnf_dict"][i]:\n                new.append(c)\n        for i in frozenset(part) - xi_i:\n            for c in self.epistemic_state["nf_cnf_dict"][i]:\n                new.append(c)\n        return new\n', note="any instead of all: one passing tie decides")
V("f-w-ties-layer0-inverted", "fire", ["C03"], SW, W_TIE_OLD, '        shared = xi_i_set & xi_i_prime_set\n        if partition_index == 0:\n            return bool(shared)\n        return all(\n            self._rec_inference(self._fixed(hard_constraints, part, xi_i), partition_index - 1, deadline)\n            for xi_i in shared\n        )\n\n    def _fixed(self, hard_constraints, part, xi_i):\n        new = hard_constraints.copy()\n        for i in xi_i:\n            for c in self.epistemic_state["f_cnf_dict"][i]:\n                new.append(c)\n        for i in frozenset(part) - xi_i:\n            for c in self.epistemic_state["nf_cnf_dict"][i]:\n                new.append(c)\n        return new\n', note="layer 0: a tie answers True")
V("f-w-ties-no-layer0-guard", "fire", ["C03"], SW, W_TIE_OLD, '        shared = xi_i_set & xi_i_prime_set\n        return all(\n            self._rec_inference(self._fixed(hard_constraints, part, xi_i), partition_index - 1, deadline)\n            for xi_i in shared\n        )\n\n    def _fixed(self, hard_constraints, part, xi_i):\n        new = hard_constraints.copy()\n        for i in xi_i:\n            for c in self.epistemic_state["f_cnf_dict"][i]:\n                new.append(c)\n        for i in frozenset(part) - xi_i:\n            for c in self.epistemic_state["nf_cnf_dict"][i]:\n                new.append(c)\n        return new\n', note="the recursion below a tie is not guarded against layer 0")

# partition: tolerance answers collected first, then split with compress
PART_OLD = """            R = []
            C = []
            for c in conditionals:
                calls += 1
                s.push()
                s.add_assertion(c.make_A_then_B())
                if s.solve():
                    R.append(c)
                else:
                    C.append(c)
                s.pop()
"""
def _part_new(r_sel, c_sel):
    return f"""            tolerated = []
            for c in conditionals:
                calls += 1
                s.push()
                s.add_assertion(c.make_A_then_B())
                tolerated.append(s.solve())
                s.pop()
            import itertools, operator
            R = list(itertools.compress(conditionals, {r_sel}))
            C = list(itertools.compress(conditionals, {c_sel}))
"""
V("s-part-compress", "silent", ["C06", "C01"], CS, PART_OLD, _part_new("tolerated", "map(operator.not_, tolerated)"), note="round-3 form: answers collected, layers split with compress")
V("f-part-compress-swapped", "fire", ["C06"], CS, PART_OLD, _part_new("map(operator.not_, tolerated)", "tolerated"), note="the tolerated conditionals stay, the others form the layer")
V("f-part-compress-all-stay", "fire", ["C06"], CS, PART_OLD, _part_new("tolerated", "conditionals and [True] * len(tolerated)"), note="nothing leaves the remaining set")

# ranking operations: filter through compress
PO_FILTER_OLD = """        return [
            w
            for w in self.ranks.keys()
            if self.world_satisfies_conditionalization(w, conditionalization)
        ]
"""
def _filter_new(sel):
    return f"""        import itertools, operator
        worlds = self.ranks.keys()
        verdicts = map(self.world_satisfies_conditionalization, worlds, itertools.repeat(conditionalization))
        return list(itertools.compress(worlds, {sel}))
"""
V("s-filter-compress", "silent", ["C18"], PO, PO_FILTER_OLD, _filter_new("verdicts"))
V("f-filter-compress-negated", "fire", ["C18"], PO, PO_FILTER_OLD, _filter_new("map(operator.not_, verdicts)"), note="the worlds that do not satisfy the condition are kept")

# the front enumerated through a generator
FRONT_OLD = """    results: list[dict[str, int]] = []
    while opt.check() == z3.sat:
        m = opt.model()
        results.append(_int_values(m))
        if len(minimize_vars) == 1:
            # z3 enumerates a front only for two or more objectives: with a single one every
            # check() returns the same optimum again, and that optimum is the whole front
            break
        if max_solutions is not None and len(results) >= max_solutions:
            break

    return results
"""
def _front_new(stop):
    return f"""    results: list[dict[str, int]] = []
    for count, values in enumerate(_front_models(opt), start=1):
        results.append(values)
        if {stop}:
            break
    return results


def _front_models(opt):
    while opt.check() == z3.sat:
        yield _int_values(opt.model())
"""
V("s-front-generator", "silent", ["C17", "C19"], "inference/c_revision.py", FRONT_OLD, _front_new("len(minimize_vars) == 1 or (max_solutions is not None and count >= max_solutions)"))
V("f-front-generator-no-single-exit", "fire", ["C17"], "inference/c_revision.py", FRONT_OLD, _front_new("max_solutions is not None and count >= max_solutions"), note="single objective: the generator never ends")
V("f-front-generator-cap-off-by-one", "fire", ["C17"], "inference/c_revision.py", FRONT_OLD, _front_new("len(minimize_vars) == 1 or (max_solutions is not None and count > max_solutions)"), note="one point more than the cap")

# parser: the list rules walked as a chain of links
VIS = "parser/myVisitor.py"
VCOND_OLD = """        consequent = self.visit(ctx.consequent)
        antecedent = self.visit(ctx.antecedent)
        text = f"({ctx.consequent.getText()}|{ctx.antecedent.getText()})"
        c = Conditional(consequent, antecedent, text, weak=False)
        if ctx.condition() != None:
            return [c] + self.visit(ctx.condition())
        return [c]
"""
def _vcond_new(order, build):
    return f"""        links = []
        while ctx is not None:
            links.append(ctx)
            ctx = ctx.condition()
        return [self._conditional(link) for link in {order}]

    def _conditional(self, ctx):
        consequent = self.visit(ctx.consequent)
        antecedent = self.visit(ctx.antecedent)
        text = f"({{ctx.consequent.getText()}}|{{ctx.antecedent.getText()}})"
        return {build}
"""
V("s-visit-condition-links", "silent", ["C10"], VIS, VCOND_OLD, _vcond_new("links", "Conditional(consequent, antecedent, text, weak=False)"))
V("f-visit-condition-links-reversed", "fire", ["C10"], VIS, VCOND_OLD, _vcond_new("reversed(links)", "Conditional(consequent, antecedent, text, weak=False)"), note="file order lost")
V("f-visit-condition-links-swapped", "fire", ["C10"], VIS, VCOND_OLD, _vcond_new("links", "Conditional(antecedent, consequent, text, weak=False)"), note="consequent and antecedent swapped")
V("f-visit-condition-links-skip-last", "fire", ["C10"], VIS, VCOND_OLD, _vcond_new("links[:-1] or links", "Conditional(consequent, antecedent, text, weak=False)"), note="the last conditional of a longer list is lost")
V("f-visit-condition-links-weak", "fire", ["C10"], VIS, VCOND_OLD, _vcond_new("links", "Conditional(consequent, antecedent, text, weak=True)"))
VSIG_OLD = "        if len(signature) != len(set(signature)):\n"
V("s-visit-signature-counter", "silent", ["C10"], VIS, VSIG_OLD, "        if any(times > 1 for times in Counter(signature).values()):\n")
V("f-visit-signature-counter-twice-ok", "fire", ["C10"], VIS, VSIG_OLD, "        if any(times > 2 for times in Counter(signature).values()):\n", note="an atom declared twice is accepted")
V("f-visit-signature-adjacent-only", "fire", ["C10"], VIS, VSIG_OLD, "        if any(a == b for a, b in zip(signature, signature[1:])):\n", note="only adjacent duplicates are rejected")

# the violated owners through a generator
OPT = "inference/optimizer.py"
VIOL_OLD = """            for index, conditional in nf_cnf_dict.items():
                if index in ignore:
                    continue
                for clause in conditional:
                    if not any(x in clause for x in model):
                        counter += 1
                        violated.add(index)
                    if counter == cost:
                        return violated
"""
def _viol_new(cond, stop):
    return f"""            true_literals = set(model)
            unsatisfied = (
                index
                for index, conditional in nf_cnf_dict.items()
                if {cond}
                for clause in conditional
                if true_literals.isdisjoint(clause)
            )
            for counter, index in enumerate(unsatisfied, start=1):
                violated.add(index)
                if {stop}:
                    break
"""
V("s-violated-generator", "silent", ["C15", "C03"], OPT, VIOL_OLD, _viol_new("index not in ignore", "counter == cost"))
V("f-violated-generator-stops-early", "fire", ["C15"], OPT, VIOL_OLD, _viol_new("index not in ignore", "counter + 1 >= cost"), note="stops one unsatisfied clause early")
V("f-violated-generator-ignore-dropped", "fire", ["C15"], OPT, VIOL_OLD, _viol_new("True", "counter == cost"), note="ignored owners reported")
V("f-violated-generator-first-clause-only", "fire", ["C15"], OPT, VIOL_OLD,
  _viol_new("index not in ignore", "counter == cost").replace("for clause in conditional\n", "for clause in conditional[:1]\n"), note="only the first clause of a conditional is looked at")

# round 5: benign neighbours of the seeded slips
LI = "inference/lex_inf.py"
LEX_IGN_OLD = """        ignore = [
            item
            for sublist in self.epistemic_state["partition"]
            if sublist != part
            for item in sublist
        ]
"""
LEX_IGN_CHAIN = """        import itertools
        ignore = itertools.chain.from_iterable(
            sublist for sublist in self.epistemic_state["partition"] if sublist != part
        )
"""
V("f-lex-ignore-iterator", "fire", ["C04"], LI, LEX_IGN_OLD, LEX_IGN_CHAIN, note="round 5: the ignore list is a one-shot iterator, membership tests consume it")
V("s-lex-ignore-iterator-materialised", "silent", ["C04", "C15"], LI, LEX_IGN_OLD, LEX_IGN_CHAIN,
  more=((OPT, "        xMins: list[set[int]] = []\n", "        ignore = set(ignore)\n        xMins: list[set[int]] = []\n", 0),),
  note="the enumeration makes a set of its argument first: an iterator is as good as a list then")
V("s-mcs-ignore-copy-then-sort", "silent", ["C15", "C12"], OPT, "        xMins: list[set[int]] = []\n", "        ignore = list(ignore)\n        ignore.sort()\n        xMins: list[set[int]] = []\n",
  note="a copy of the (default) list is changed, not the shared default")
V("f-mcs-ignore-default-sorted-in-place", "silent", ["C15"], OPT, "        xMins: list[set[int]] = []\n", "        xMins: list[set[int]] = []\n        _ = sorted(ignore)\n",
  note="reading the default is harmless")
V("f-mcs-ignore-default-extended", "fire", ["C15", "C12"], OPT, "        xMins: list[set[int]] = []\n", "        ignore.extend(k for k, c in self.epistemic_state['nf_cnf_dict'].items() if not c)\n        xMins: list[set[int]] = []\n",
  note="round 5: the shared default list grows with every call")

WR = "parser/Wrappers.py"
V("s-parse-formula-cached", "silent", ["C10"], WR, "def parse_formula(string: str):\n", "@functools.lru_cache(maxsize=64)\ndef parse_formula(string: str):\n",
  more=((WR, "import logging\nimport os\n", "import functools\nimport logging\nimport os\n", 0),), note="formulas are immutable hash-consed nodes: keeping them is harmless")
V("f-parse-ckb-cached", "fire", ["C10"], WR, "def parseCKB(ckbs_string):\n", "@functools.lru_cache(maxsize=64)\ndef parseCKB(ckbs_string):\n",
  more=((WR, "import logging\nimport os\n", "import functools\nimport logging\nimport os\n", 0),), note="round 5: the parsed base is mutable and handed out again")

MV = "parser/myVisitor.py"
V("f-wrap-template-twice", "fire", ["C10"], WR, "{{ \\n {querystring}\\n }}", "{{ \\n {querystring}\\n {querystring}\\n }}", rules={"C10": ["WRAP.chain"]}, note="round 7: the query text is pasted into the template twice")
V("f-wrap-template-trailing", "fire", ["C10"], WR, "{{ \\n {querystring}\\n }}", "{{ \\n {querystring}\\n }} // {querystring}", rules={"C10": ["WRAP.chain"]}, note="the text a second time behind the block")
V("s-wrap-template-layout", "silent", ["C10"], WR, "signature \\n a,b,c,d,e,f \\n conditionals \\n Querydummy \\n {{ \\n {querystring}\\n }}", "signature\\n a, b\\nconditionals\\nQ{{\\n{querystring}\\n}}\\n", note="another layout and signature of the dummy base")
V("f-wrap-route-both-keywords", "fire", ["C10"], WR, 'if "signature" and "conditionals" in string:', 'if "signature" in string and "conditionals" in string:', rules={"C10": ["REJECT.template"]}, note="round 7 (C10-17): texts with the keyword conditionals reach the template")
V("s-wrap-route-keyword-only", "silent", ["C10"], WR, 'if "signature" and "conditionals" in string:', 'if "conditionals" in string:', note="what the test always meant")
V("f-wrap-ckbs-signature-late", "fire", ["C10"], MV, "        self.signature = self.visit(ctx.signature())\n        self.sigcheck = []\n        ckbs = [self.visit(i) for i in ctx.conditionals()]\n",
  "        self.sigcheck = []\n        ckbs = [self.visit(i) for i in ctx.conditionals()]\n        self.signature = self.visit(ctx.signature())\n", rules={"C10": ["WRAP.chain"]}, note="the blocks are built before the signature is read")
V("f-wrap-ckbs-keyed-by-name", "fire", ["C10"], MV, "            order.update({(ckb.name, newid): ckb})\n", "            order.update({ckb.name: ckb})\n", rules={"C10": ["WRAP.chain"]}, note="two blocks of one name: the later replaces the earlier")
V("s-wrap-ckbs-plain-dict", "silent", ["C10"], MV, "        order = OrderedDict()\n", "        order = {}\n", note="a dict keeps insertion order")
V("f-wrap-base-signature-literal", "fire", ["C10"], MV, "        bb = BeliefBase(self.signature, conditionals, name)\n", "        bb = BeliefBase(sorted(self.sigcheck), conditionals, name)\n", rules={"C10": ["WRAP.chain"]}, note="the atoms that occur instead of the declared ones")
V("f-wrap-parseckb-normalise", "fire", ["C10"], WR, "    tree = _getParseTree(ckbs_string)\n", "    tree = _getParseTree(\"\\n\".join(l.rstrip() for l in ckbs_string.splitlines()) + \"\\n\")\n", rules={"C10": ["REJECT.input"]}, note="round 7 (C10-18): splitlines splits at more than CR and LF")

CI7 = "inference/c_inference.py"
IM7 = "inference/inference_manager.py"
PO7 = "inference/preocf.py"
INF7 = "inference/inference.py"
V("s-caeq-skip-f-when-v-empty", "silent", ["C05", "C14", "C17"], CI7,
  "            if conditional is transformed_conditionals[0]:\n                vMin = xMins_lst\n            else:\n                fMin = xMins_lst\n",
  "            if conditional is transformed_conditionals[0]:\n                vMin = xMins_lst\n                if not vMin:\n                    return [], (perf_counter_ns() / (1e6) - start_time)\n            else:\n                fMin = xMins_lst\n",
  note="round 7: no verifying correction set: not entailed whatever the falsifying side is - the second enumeration may be skipped")
V("f-caeq-skip-f-when-v-nonempty", "fire", ["C05", "C14"], CI7,
  "            if conditional is transformed_conditionals[0]:\n                vMin = xMins_lst\n            else:\n                fMin = xMins_lst\n",
  "            if conditional is transformed_conditionals[0]:\n                vMin = xMins_lst\n                if vMin:\n                    break\n            else:\n                fMin = xMins_lst\n",
  rules={"C05": ["C.query-edges"], "C14": ["C.query-edges"]}, note="the falsifying side never computed although the verifying one is not empty")
V("s-state-literal-dict", "silent", ["C01", "C02", "C06"], IM7,
  "    epistemic_state: dict[str, Any] = {}\n\n    epistemic_state[\"belief_base\"] = belief_base\n",
  "    epistemic_state: dict[str, Any] = {\"belief_base\": belief_base}\n\n", note="the first slot in the literal")
V("f-state-weakly-constant", "fire", ["C01", "C02"], IM7, "    epistemic_state[\"weakly\"] = weakly\n", "    epistemic_state[\"weakly\"] = bool(smt_solver) and weakly is True and False\n",
  rules={"C01": ["STATE.slots"]}, note="the mode slot does not carry the argument")
V("s-custom-init-conditional-expr", "silent", ["C18"], PO7,
  "            signature or (belief_base.signature if belief_base else None),\n",
  "            signature if signature else (belief_base.signature if belief_base is not None else None),\n", note="the same choice spelled out")
V("f-custom-init-base-first", "fire", ["C18"], PO7,
  "            signature or (belief_base.signature if belief_base else None),\n",
  "            (belief_base.signature if belief_base else None) or signature,\n", rules={"C18": ["CUSTOM.init"]}, note="the base's signature wins over the explicit one")
V("s-setstate-setattr-loop", "silent", ["C20"], PO7, "        self.__dict__.update(state)\n", "        for key, value in state.items():\n            setattr(self, key, value)\n", note="attribute by attribute")
V("s-terminated-row-int-zero", "silent", ["C13", "C14"], INF7, "                        0.0,\n", "                        0,\n", note="an integer is a number too")
V("f-terminated-row-nan-string", "fire", ["C13", "C14"], INF7, "                        0.0,\n", "                        \"n/a\",\n", rules={"C14": ["TIMEOUT.row"]}, note="a text in the time column")

V("f-save-impacts-sorted", "fire", ["C17", "C20"], PO7, "        return self._impacts.copy()\n", "        return sorted(self._impacts)\n", rules={"C17": ["IMPACTS.observe"]}, note="the vector in another order")
V("f-save-impacts-pops", "fire", ["C17", "C20"], PO7, "        return self._impacts.copy()\n", "        out = self._impacts\n        self._impacts = None\n        return out\n", rules={"C17": ["IMPACTS.observe"]}, note="looking at the impacts takes them away")
V("s-save-impacts-list", "silent", ["C17", "C20"], PO7, "        return self._impacts.copy()\n", "        return list(self._impacts)\n", note="another way to copy")
V("f-create-preocf-swapped", "fire", ["C16", "C17", "C18"], PO7, "    if ranking_system == \"system-z\":\n        return SystemZPreOCF(*args, **kwargs)\n", "    if ranking_system == \"system-z\":\n        return RandomMinCRepPreOCF(*args, **kwargs)\n", rules={"C16": ["FACTORY.dispatch"]}, note="the name stands for another class")
V("f-create-preocf-default", "fire", ["C18"], PO7, "        raise ValueError(f\"Unknown ranking system: {ranking_system}\")\n", "        return CustomPreOCF(*args, **kwargs)\n", rules={"C18": ["FACTORY.dispatch"]}, note="an unknown name silently gives a custom ranking")
V("s-create-preocf-table", "silent", ["C16", "C17", "C18"], PO7,
  "    if ranking_system == \"system-z\":\n        return SystemZPreOCF(*args, **kwargs)\n    elif ranking_system == \"random_min_c_rep\":\n        return RandomMinCRepPreOCF(*args, **kwargs)\n    elif ranking_system == \"custom\":\n        return CustomPreOCF(*args, **kwargs)\n    else:\n        raise ValueError(f\"Unknown ranking system: {ranking_system}\")\n",
  "    table = {\"system-z\": SystemZPreOCF, \"random_min_c_rep\": RandomMinCRepPreOCF, \"custom\": CustomPreOCF}\n    if ranking_system not in table:\n        raise ValueError(f\"Unknown ranking system: {ranking_system}\")\n    return table[ranking_system](*args, **kwargs)\n",
  note="dispatch table")


def main():
    hv = os.path.join(HERE, "harvested.json")
    vs = list(VARIANTS)
    if os.path.exists(hv):
        vs += json.load(open(hv))["variants"]
    ids = [v["id"] for v in vs]
    assert len(ids) == len(set(ids)), "duplicate variant ids"
    json.dump({"variants": vs}, open(os.path.join(HERE, "corpus.json"), "w"), indent=1)
    print(len(vs), "variants")


if __name__ == "__main__":
    main()
