"""Demonstrations for C19 (run with /venv/bin/python from /repo or a scratch copy): search small priors and
conditional lists for a c-revision whose returned parameters give a revised ranking that rejects a revision
conditional.  Usage: demo_c19.py [free|fixed] [n]"""
import itertools
import logging
import random
import sys

logging.disable(logging.CRITICAL)
from pysmt.shortcuts import Bool, Symbol
from pysmt.typing import BOOL

import inference.c_revision as cr
from inference.conditional import Conditional
from inference.preocf import PreOCF
from parser.Wrappers import parse_formula

SIG = ["a", "b", "c"]
WORLDS = ["".join(p) for p in itertools.product("01", repeat=3)]


def ev(f, w):
    return f.substitute({Symbol(k, BOOL): Bool(b == "1") for k, b in zip(SIG, w)}).simplify().is_true()


def revised(ranks, conds, model):
    new = {}
    for w, r in ranks.items():
        for c in conds:
            if ev(c.make_A_then_B(), w):
                r += model.get("gamma+_%d" % c.index, 0)
            elif ev(c.make_A_then_not_B(), w):
                r += model.get("gamma-_%d" % c.index, 0)
        new[w] = r
    return new


def accepts(ranks, c):
    v = [r for w, r in ranks.items() if ev(c.make_A_then_B(), w)]
    f = [r for w, r in ranks.items() if ev(c.make_A_then_not_B(), w)]
    if not f:
        return True
    return bool(v) and min(v) < min(f)


def main():
    mode = sys.argv[1] if len(sys.argv) > 1 else "free"
    n = int(sys.argv[2]) if len(sys.argv) > 2 else 300
    rnd = random.Random(7)
    lits = ["a", "!a", "b", "!b", "c", "!c", "a,b", "a;c", "!b;c"]
    bad = 0
    for t in range(n):
        ranks = {w: rnd.randint(0, 3) for w in WORLDS}
        ranks[rnd.choice(WORLDS)] = 0
        conds = []
        for i in range(1, rnd.randint(2, 3) + 1):
            B, A = rnd.choice(lits), rnd.choice(lits)
            c = Conditional(parse_formula(B), parse_formula(A), "(%s|%s)" % (B, A))
            c.index = i
            conds.append(c)
        kw = {}
        if mode == "fixed":
            kw = dict(gamma_plus_zero=True, fixed_gamma_minus={1: rnd.randint(0, 6)})
        if mode == "fixedplus":
            kw = dict(fixed_gamma_plus={1: rnd.randint(0, 4)}, gamma_plus_zero=rnd.random() < 0.5)
        try:
            model = cr.c_revision(PreOCF.init_custom(dict(ranks), None, SIG), conds, **kw)
        except Exception as e:  # "never raises"
            print("RAISES", type(e).__name__, e, ranks, [c.textRepresentation for c in conds], kw)
            bad += 1
            continue
        if model is None:
            continue
        new = revised(ranks, conds, model)
        rej = [c.textRepresentation for c in conds if not accepts(new, c)]
        neg = [k for k, v in model.items() if k.startswith("gamma") and v < 0]
        if rej or neg:
            bad += 1
            if bad <= 3:
                print("REJECTS", rej, neg, "prior", ranks, "conds", [c.textRepresentation for c in conds], kw, "model", {k: v for k, v in model.items() if k.startswith("gamma")})
    print("mode=%s trials=%d violating=%d" % (mode, n, bad))


main()
