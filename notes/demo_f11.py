"""Triage evidence for F11 (not a check): the z3 optimizer answering `unknown` (what a timeout yields) inside
get_all_xi_i.  The solver giving up is injected at the first Optimize.check() of the enumeration.
Usage: /venv/bin/python demo_f11.py [repo_root]"""
import logging, sys, warnings
ROOT = sys.argv[1] if len(sys.argv) > 1 else "/repo"
sys.path.insert(0, ROOT)
warnings.filterwarnings("ignore"); logging.disable(logging.CRITICAL)
import z3
from inference.inference_manager import InferenceManager
from parser.Wrappers import parse_belief_base, parse_queries

bb = parse_belief_base("signature\nb,p,f,w\n\nconditionals\nbirds{\n(f|b),\n(!f|p),\n(b|p),\n(w|b)\n}\n")
q = parse_queries("(w|p)")
orig = z3.Optimize.check
state = {"n": 0}
def giving_up(self, *a):
    state["n"] += 1
    if state["n"] == 1:
        return z3.unknown          # the solver gives up (e.g. its timeout fired)
    return orig(self, *a)
for system in ("system-w", "lex_inf"):
    state["n"] = 0
    z3.Optimize.check = giving_up
    try:
        df = InferenceManager(bb, system, pmaxsat_solver="z3").inference(q, total_timeout=300)
        print(system, "rows:", df[["result", "inference_timed_out"]].values.tolist(), "(required: flagged row [False, True])")
    except Exception as e:  # noqa: BLE001
        print(system, "EXCEPTION escaped inference():", type(e).__name__, str(e)[:60], "(required: flagged row [False, True])")
    finally:
        z3.Optimize.check = orig
