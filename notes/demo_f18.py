import logging; logging.disable(logging.CRITICAL)
import sys, signal
sys.path.insert(0, "/repo")
from parser.Wrappers import parse_belief_base
from inference.c_revision import c_inference_pareto_front, solve_pareto_front
import z3
bb = parse_belief_base("signature\n a,b\n\nconditionals\nkb{\n(b|a)\n}\n")
def handler(signum, frame): raise TimeoutError("still enumerating after 10 s")
signal.signal(signal.SIGALRM, handler); signal.alarm(10)
try:
    print("front:", c_inference_pareto_front(bb))
except TimeoutError as e:
    print("TIMEOUT", e)
signal.alarm(0)
print("capped:", c_inference_pareto_front(bb, max_solutions=3))
# plain z3
o = z3.Optimize(); o.set(priority="pareto"); x = z3.Int("x"); o.add(x >= 1); o.minimize(x)
print([ (o.check(), o.model()[x]) for _ in range(4)])
