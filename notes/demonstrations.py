"""Triage evidence only — NOT part of any registered check (the checks never run repo code).

Reproduces, against the real code, the failing inputs quoted in DESIGN.md §6.
Usage: /venv/bin/python /verif/notes/demonstrations.py [repo_root]   (default /repo)
Each line prints the finding id, the observed value and the value the property requires.
"""
import itertools
import logging
import os
import sys
import tempfile
import warnings

ROOT = sys.argv[1] if len(sys.argv) > 1 else "/repo"
sys.path.insert(0, ROOT)
warnings.filterwarnings("ignore")
logging.disable(logging.CRITICAL)

from inference.belief_base import BeliefBase  # noqa: E402
from inference.inference_manager import InferenceManager  # noqa: E402
from inference.preocf import PreOCF  # noqa: E402
from inference.queries import Queries  # noqa: E402
from parser.Wrappers import parse_belief_base, parse_formula, parse_queries  # noqa: E402

RC2, Z3 = {}, {"pmaxsat_solver": "z3"}


def bb(sig, conds, name="kb"):
    return parse_belief_base(
        "signature\n%s\n\nconditionals\n%s{\n%s\n}\n" % (",".join(sig), name, ",\n".join(conds))
    )


def run(base, system, queries, **kw):
    try:
        q = parse_queries(queries) if isinstance(queries, str) else queries
        return list(InferenceManager(base, system, **kw).inference(q)["result"])
    except Exception as e:  # noqa: BLE001
        return "EXC %s: %s" % (type(e).__name__, str(e)[:60])


def show(fid, what, observed, required):
    print("%-4s %-58s observed=%s required=%s" % (fid, what, observed, required))


def attempt(f):
    try:
        return f()
    except Exception as e:  # noqa: BLE001
        return "EXC %s: %s" % (type(e).__name__, str(e)[:50])


birds = bb(["b", "p", "f", "w"], ["(f|b)", "(!f|p)", "(b|p)", "(w|b)"])
QS = "(f|p),(!f|p),(w|p),(b|p),(f|b)"

# F1 parser accepts trailing input
show("F1", "parse_formula('a b')", attempt(lambda: str(parse_formula("a b"))), "error")
show("F1", "belief base followed by 'xyz'",
     attempt(lambda: str(parse_belief_base("signature\na,b\n\nconditionals\nkb{\n(a|b)\n}\nxyz").conditionals)), "error")

# F2 constants in CNF: direct inference of (x|Top)
top = bb(["x", "y"], ["(x|Top)", "(y|x)"])
for s, kw in [("system-w", RC2), ("lex_inf", RC2), ("c-inference", RC2), ("system-w", Z3)]:
    show("F2", "%s %s (x|Top),(y|x),(y|Top) on {(x|Top),(y|x)}" % (s, kw or ""), run(top, s, "(x|Top),(y|x),(y|Top)", **kw), [True, True, True])

# F3/F4/F5 keys
b0 = BeliefBase(birds.signature, {i - 1: c for i, c in birds.conditionals.items()}, "b0")
b5 = BeliefBase(birds.signature, {i * 5: c for i, c in birds.conditionals.items()}, "b5")
show("F3", "p-entailment, birds with keys 0..3", run(b0, "p-entailment", QS), run(birds, "p-entailment", QS))
show("F5", "c-inference, birds with keys 5,10,15,20", run(b5, "c-inference", QS), run(birds, "c-inference", QS))
k4 = bb(["a", "b", "c", "d"], ["(!a|b)", "(a|!a;!c)", "(!c;!a|d)", "(!b|!c)"])
k40 = BeliefBase(k4.signature, {i - 1: c for i, c in k4.conditionals.items()}, "k40")
for s in ("system-w", "lex_inf"):
    show("F4", "%s (!d|b,a) with keys 0..3" % s, run(k40, s, "(!d|b,a)"), run(k4, s, "(!d|b,a)"))

# F6 second call on one manager
def second_call():
    m = InferenceManager(birds, "c-inference")
    m.inference(parse_queries(QS))
    return list(m.inference(parse_queries(QS))["result"])
show("F6", "c-inference: second inference() on one manager", attempt(second_call), run(birds, "c-inference", QS))

# F7 duplicate query texts under different keys
q = parse_queries("(f|p),(w|p)")
dup = Queries({7: q.conditionals[1], 3: q.conditionals[2], 9: q.conditionals[1]})
show("F7", "row keys for queries keyed 7,3,9 (7 and 9 same text)",
     attempt(lambda: list(InferenceManager(birds, "system-z").inference(dup)["index"])), [7, 3, 9])

# F9 extended mode, no finite layer
inf_only = bb(["a", "b"], ["(Bottom|a)"])
for s, kw in [("system-z", RC2), ("system-w", RC2), ("system-w", Z3), ("lex_inf", RC2), ("lex_inf", Z3)]:
    show("F9", "%s %s extended on {(Bottom|a)}" % (s, kw or ""),
         run(inf_only, s, "(b|Top),(!a|Top),(a|Top),(b|a),(b|!a)", weakly=True, **kw), [False, True, False, True, False])

# F10 infinity layer as hard constraint in the z3 back-ends
mixed = bb(["a", "b", "c", "d"], ["(Bottom|a)", "(c|b)", "(d|b)"])
Q10 = "(!a,b,!c,d | b,((!a,!c);(a,c,d)))"
for s in ("system-w", "lex_inf"):
    show("F10", "%s z3 vs rc2, extended" % s, run(mixed, s, Q10, weakly=True, **Z3), run(mixed, s, Q10, weakly=True))

# F12 unfalsifiable conditional
unf = bb(["a", "b"], ["(a|a)", "(b|a)"])
show("F12", "c-inference on {(a|a),(b|a)}", run(unf, "c-inference", "(b|a),(!b|a),(a|Top),(!a|Top)"), run(unf, "system-w", "(b|a),(!b|a),(a|Top),(!a|Top)", **Z3))
show("F12", "c-representation ranking of {(a|a),(b|a)}", attempt(lambda: PreOCF.init_random_min_c_rep(unf).save_impacts()), "an impact vector")

# F13 lexicographic tie: vectors AB {(1,0),(1,2)}, A!B {(1,1)}
lexb = bb(["b", "p", "f", "w", "u"], ["(f|b)", "(w|b)", "(u|b)", "(!f|p)", "(b|p)"])
Q13 = "((f,b,!w,!u);(!f,!b) | p,((f,b,!(w,u));(!f,!b)))"
for kw in (RC2, Z3):
    show("F13", "lex_inf %s" % (kw or "rc2"), run(lexb, "lex_inf", Q13, **kw), [True])

# F15 model extraction (the baseline-failing test) and F14 are reproduced by
#   unittests/test_c_revision_vs_c_representation.py and by random priors with gamma+ free
#   (see DESIGN §6); F8 and F11 need a scheduled expiry and are demonstrated at triage time.

# F17 fixed gamma values are not respected inside the minima sums
def fixed_gamma():
    import z3
    import inference.c_revision as cr
    from inference.conditional import Conditional
    from pysmt.shortcuts import Bool, Symbol
    from pysmt.typing import BOOL

    def solve(csp, minimize_vars=None):  # as the original, minus the F15 crash on non-int decls
        opt = z3.Optimize()
        opt.set(priority="pareto")
        opt.add(*cr._convert_csp_to_z3(csp))
        for v in minimize_vars or []:
            opt.minimize(z3.Int(v))
        if opt.check() == z3.sat:
            m = opt.model()
            return {d.name(): m[d].as_long() for d in m.decls() if z3.is_int_value(m[d])}
        return None

    cr.solve_and_get_model = solve
    sig = ["a", "b", "c"]
    ranks = {"000": 1, "001": 0, "010": 2, "011": 0, "100": 0, "101": 0, "110": 0, "111": 1}
    conds = []
    for i, (B, A) in enumerate([("c", "a"), ("b", "!c")], start=1):
        c = Conditional(parse_formula(B), parse_formula(A), "(%s|%s)" % (B, A))
        c.index = i
        conds.append(c)
    model = cr.c_revision(PreOCF.init_custom(dict(ranks), None, sig), conds, gamma_plus_zero=True, fixed_gamma_minus={1: 6})
    ev = lambda f, w: f.substitute({Symbol(k, BOOL): Bool(b == "1") for k, b in zip(sig, w)}).simplify().is_true()
    new = {}
    for w, r in ranks.items():
        for c in conds:
            if ev(c.make_A_then_B(), w):
                r += model.get("gamma+_%d" % c.index, 0)
            elif ev(c.make_A_then_not_B(), w):
                r += model.get("gamma-_%d" % c.index, 0)
        new[w] = r
    post = PreOCF.init_custom(new, None, sig)
    return [post.conditional_acceptance(c) for c in conds]
show("F17", "c_revision with gamma-_1 fixed to 6: acceptance of (c|a),(b|!c)", attempt(fixed_gamma), [True, True])

# F16 format dispatch
d = tempfile.mkdtemp()
o = PreOCF.init_system_z(birds)
o.save_meta("k", [1, 2])
def meta():
    o.save_metadata(os.path.join(d, "m.dat"))
    o2 = PreOCF.init_system_z(birds)
    o2.load_metadata(os.path.join(d, "m.dat"))
    return o2.metadata.get("k")
show("F16", "save_metadata/load_metadata('m.dat')", attempt(meta), [1, 2])
