"""Triage evidence for F8 (not a check): a worker that is still alive after the timed join (injected for the
second query of a parallel batch) makes multi_inference store a row under the worker's POSITION in the process
list, which clobbers the row of the query whose KEY equals that position.
Usage: /venv/bin/python demo_f8.py [repo_root]"""
import logging, sys, warnings
ROOT = sys.argv[1] if len(sys.argv) > 1 else "/repo"
sys.path.insert(0, ROOT)
warnings.filterwarnings("ignore"); logging.disable(logging.CRITICAL)
import multiprocessing as mp
from inference.inference_manager import InferenceManager
from parser.Wrappers import parse_belief_base, parse_queries

bb = parse_belief_base("signature\nb,p,f,w\n\nconditionals\nbirds{\n(f|b),\n(!f|p),\n(b|p),\n(w|b)\n}\n")
q = parse_queries("(f|b),(b|p),(w|p)")          # keys 1,2,3 ; all three are entailed by System Z
orig = mp.Process.is_alive
seen = []
def is_alive(self):
    if self not in seen:
        seen.append(self)
    if len(seen) == 2 and seen[1] is self and not getattr(self, "_reported", False):
        self._reported = True
        return True            # the second worker (query key 2) looks like a straggler once
    return orig(self)
mp.Process.is_alive = is_alive
try:
    df = InferenceManager(bb, "system-z").inference(q, inference_timeout=5, multi_inference=True)
finally:
    mp.Process.is_alive = orig
print(df[["index", "query", "result", "inference_timed_out"]].values.tolist())
print("required: row of key 1 = [1, '(f|b)', True, False]; only the row of key 2 may be flagged")
